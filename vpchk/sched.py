"""Schedule-owning thread harness (DESIGN.md 2.6).

Worker threads run under sys.settrace; inside frames whose file belongs to `tracked` every 'line' event is a yield
point.  Exactly one worker is allowed to run at a time; the schedule says after which of its own yield points the
running worker is preempted.  A worker that blocks on a real lock (no yield point within `block_timeout`) is marked
blocked and another parked worker is run; it re-joins when it reaches its next yield point.  The harness only ever
delays threads, so every executed interleaving is a feasible interleaving of the real code.
"""

from __future__ import annotations

import sys
import threading
import time


class Stuck(Exception):
    pass


class Run:
    def __init__(self, bodies, tracked, preempt, order=None, block_timeout=0.05, stuck_timeout=5.0, opcode_funcs=()):
        """bodies: list of zero-arg callables; tracked: tuple of path prefixes; preempt: dict tid -> set of local step numbers
        after which that thread yields the processor; order: initial run order of thread ids"""
        self.bodies = bodies
        self.tracked = tuple(tracked)
        self.preempt = {k: set(v) for k, v in preempt.items()}
        self.n = len(bodies)
        self.order = list(order or range(self.n))
        self.block_timeout = block_timeout
        self.stuck_timeout = stuck_timeout
        self.opcode_funcs = set(opcode_funcs)
        self.cv = threading.Condition()
        self.current = None
        self.local_steps = [0] * self.n
        self.finished = [False] * self.n
        self.started = [False] * self.n
        self.parked = set()
        self.blocked = set()
        self.results = [None] * self.n
        self.trace = []  # (tid, local step) in global order
        self.progress = 0
        self.inside = [None] * self.n  # function name at each thread's last yield point
        self.preempted_inside = []  # function the preempted thread was in, per preemption

    # ---- worker side ----
    def _tracer(self, tid):
        tracked = self.tracked
        opf = self.opcode_funcs

        def local(frame, event, arg):
            if event == "line" or (event == "opcode" and frame.f_code.co_name in opf):
                self._yield_point(tid, frame.f_code.co_name)
            return local

        def glob(frame, event, arg):
            if event == "call" and frame.f_code.co_filename.startswith(tracked):
                if frame.f_code.co_name in opf:
                    frame.f_trace_opcodes = True
                return local
            return None

        return glob

    def _next_runnable(self, exclude):
        # prefer parked threads, then not-yet-started ones, in self.order
        for t in self.order:
            if t != exclude and not self.finished[t] and t not in self.blocked and (t in self.parked or not self.started[t]):
                return t
        return None

    def _yield_point(self, tid, fname):
        with self.cv:
            self.progress += 1
            self.inside[tid] = fname
            if tid in self.blocked:
                self.blocked.discard(tid)
            if self.current != tid:
                # a thread that had been blocked on a real lock woke up: park until scheduled
                self.parked.add(tid)
                self.cv.notify_all()
                while self.current != tid:
                    self.cv.wait()
                self.parked.discard(tid)
                return
            self.local_steps[tid] += 1
            self.trace.append((tid, self.local_steps[tid]))
            if self.local_steps[tid] in self.preempt.get(tid, ()):
                nxt = self._next_runnable(tid)
                if nxt is not None:
                    self.preempted_inside.append(fname)
                    self.parked.add(tid)
                    self.current = nxt
                    self.cv.notify_all()
                    while self.current != tid:
                        self.cv.wait()
                    self.parked.discard(tid)

    def _worker(self, tid):
        with self.cv:
            while self.current != tid:
                self.cv.wait()
            self.started[tid] = True
        sys.settrace(self._tracer(tid))
        try:
            self.results[tid] = ("ok", self.bodies[tid]())
        except BaseException as e:  # noqa: BLE001
            self.results[tid] = ("err", e)
        finally:
            sys.settrace(None)
            with self.cv:
                self.finished[tid] = True
                self.progress += 1
                self.blocked.discard(tid)
                if self.current == tid:
                    self.current = self._next_runnable(tid)
                self.cv.notify_all()

    # ---- controller ----
    def run(self):
        threads = [threading.Thread(target=self._worker, args=(t,), daemon=True) for t in range(self.n)]
        for t in threads:
            t.start()
        with self.cv:
            self.current = self.order[0]
            self.cv.notify_all()
            last = self.progress
            t_last = time.monotonic()
            while not all(self.finished):
                self.cv.wait(self.block_timeout)
                now = time.monotonic()
                if self.progress != last:
                    last, t_last = self.progress, now
                    if self.current is None or self.finished[self.current]:
                        self.current = self._next_runnable(None)
                        self.cv.notify_all()
                    continue
                if now - t_last >= self.block_timeout:
                    cur = self.current
                    if cur is not None and not self.finished[cur] and cur not in self.parked:
                        # no yield point reached: running thread is blocked on a real lock (or in a long C call)
                        nxt = self._next_runnable(cur)
                        if nxt is not None:
                            self.blocked.add(cur)
                            self.current = nxt
                            self.cv.notify_all()
                            t_last = now
                            continue
                    elif cur is None or self.finished[cur]:
                        nxt = self._next_runnable(None)
                        if nxt is not None:
                            self.current = nxt
                            self.cv.notify_all()
                            t_last = now
                            continue
                        # maybe a blocked thread can proceed now
                        for t in list(self.blocked):
                            if not self.finished[t]:
                                self.current = t
                                self.cv.notify_all()
                                break
                    if now - t_last > self.stuck_timeout:
                        raise Stuck(f"no progress for {self.stuck_timeout}s: finished={self.finished} parked={sorted(self.parked)} blocked={sorted(self.blocked)} current={self.current}")
        for t in threads:
            t.join(1.0)
        return self.results


def count_steps(make_bodies, tracked, order, opcode_funcs=()):
    """run without preemption -> (results, local step counts, function name per step of each thread)"""
    r = Run(make_bodies(), tracked, {}, order=order, opcode_funcs=opcode_funcs)
    res = r.run()
    return res, r.local_steps, r
