"""Hypothesis strategies over the format table (DESIGN.md 2.2): passwords, settings, context
keywords, near-miss passwords.  Constructive: no filtering."""

from __future__ import annotations

from hypothesis import strategies as st

from . import table
from .table import BC64, DJANGO_SALT, H64, HEXU

BOUNDARY_LENGTHS = [0, 1, 2, 7, 8, 9, 13, 14, 15, 16, 17, 27, 28, 31, 32, 33, 55, 56, 63, 64, 65, 71, 72, 73, 95, 96, 97, 127, 128, 129, 255, 256]
BIG_LENGTHS = [4095, 4096]

_ascii = st.characters(min_codepoint=0x20, max_codepoint=0x7E)
_letters = st.sampled_from("abcXYZ qrsT")
_two = st.characters(min_codepoint=0x80, max_codepoint=0x7FF)
_three = st.characters(min_codepoint=0x800, max_codepoint=0xFFFF, blacklist_categories=("Cs",))
_four = st.characters(min_codepoint=0x10000, max_codepoint=0x10FFFF)
_cp437 = st.sampled_from("abcdefgXYZ019 !#éüñÇ£¥ß±")
_sasl = st.one_of(_ascii, st.sampled_from("éüñßΩжЖ日本ⅨªÅ­ "))


def lengths(maxlen=None, big=False):
    pool = [n for n in BOUNDARY_LENGTHS if maxlen is None or n <= maxlen]
    hi = min(300, maxlen) if maxlen is not None else 300
    parts = [st.sampled_from(pool), st.integers(0, hi), st.integers(0, min(hi, 24))]
    if big and maxlen is None:
        parts.append(st.sampled_from(BIG_LENGTHS))
    return st.one_of(*parts)


@st.composite
def text_of_bytes_len(draw, nbytes, alphabet):
    """text whose UTF-8 length is <= nbytes and as close as the alphabet allows"""
    out = []
    used = 0
    for _ in range(nbytes):
        ch = draw(alphabet)
        w = len(ch.encode("utf-8"))
        if used + w > nbytes:
            break
        out.append(ch)
        used += w
    pad = nbytes - used
    return "".join(out) + "x" * pad


@st.composite
def secrets(draw, fmt: table.Fmt, big=False, min_len=0):
    """-> password as the natural type for the format: bytes (raw formats) or str (text formats)"""
    kind = fmt.secret
    n = max(min_len, draw(lengths(fmt.maxlen, big)))
    if kind in ("bytes", "nonul"):
        cls = draw(st.sampled_from(["ascii", "letters", "utf8-2", "utf8-3", "utf8-4", "raw", "highbit", "blank"]))
        lo = 1 if kind == "nonul" else 0
        if cls == "raw":
            return bytes(draw(st.lists(st.integers(lo, 255), min_size=n, max_size=n)))
        if cls == "highbit":
            return bytes(draw(st.lists(st.integers(0x80, 0xFF), min_size=n, max_size=n)))
        if cls == "blank":
            return (draw(st.sampled_from([b" ", b"\t", b"a b", b" x "])) * n)[:n]
        alpha = {"ascii": _ascii, "letters": _letters, "utf8-2": _two, "utf8-3": _three, "utf8-4": _four}[cls]
        if n > 400:
            return (draw(text_of_bytes_len(64, alpha)).encode("utf-8") * (n // 64 + 1))[:n].decode("utf-8", "ignore").encode("utf-8").ljust(n, b"z")
        return draw(text_of_bytes_len(n, alpha)).encode("utf-8")
    if kind == "lm":
        n = min(n, 40)
        return draw(st.text(_cp437, min_size=n, max_size=n))
    if kind == "sasl":
        n = min(n, 80)
        return draw(st.text(_sasl, min_size=n, max_size=n))
    if kind == "ldap_plain":
        n = max(1, min(n, 300))
        s = draw(st.text(st.one_of(_ascii, _two, _three), min_size=n, max_size=n))
        return ("p" + s[1:]) if s.startswith("{") else s
    # text / text_enc
    cls = draw(st.sampled_from(["ascii", "letters", "bmp", "astral", "mixed"]))
    alpha = {"ascii": _ascii, "letters": _letters, "bmp": st.one_of(_two, _three), "astral": _four, "mixed": st.one_of(_ascii, _two, _three, _four)}[cls]
    if n > 400:
        return (draw(st.text(alpha, min_size=16, max_size=16)) * (n // 16 + 1))[:n]
    return draw(st.text(alpha, min_size=n, max_size=n))


def as_bytes(secret, ctx=None):
    enc = (ctx or {}).get("encoding") or "utf-8"
    return secret.encode(enc) if isinstance(secret, str) else secret


@st.composite
def salts(draw, spec, size=None):
    kind, lo, hi = spec
    if kind == "int":
        return draw(st.integers(lo, hi))
    n = size if size is not None else draw(st.one_of(st.sampled_from([lo, hi]), st.integers(lo, hi)))
    if kind == "bytes":
        return draw(st.one_of(st.binary(min_size=n, max_size=n), st.sampled_from([b"\x00" * n, b"\xff" * n])))
    alpha = {"h64": H64, "bc64": BC64, "django": DJANGO_SALT, "hexu": HEXU}[kind]
    s = draw(st.one_of(st.text(st.sampled_from(alpha), min_size=n, max_size=n), st.sampled_from([alpha[0] * n, alpha[-1] * n, (alpha[1] + alpha[-1]) * (n // 2) + alpha[0] * (n % 2)])))
    if kind == "bc64" and n == 22:
        # final character carries only 2 significant bits: ./ABCD.. index must be a multiple of 16
        s = s[:-1] + draw(st.sampled_from(".Oeu"))
    return s


@st.composite
def rounds_values(draw, spec, odd=False):
    lo, hi, special = spec
    r = draw(st.one_of(st.sampled_from(special), st.integers(lo, hi)))
    return r | 1 if odd else r


@st.composite
def settings(draw, name, explicit_salt=True, allow_bare=False):
    """dict of using() keywords: every digest-relevant setting explicit and cheap"""
    f = table.T[name]
    s = {}
    if f.rounds:
        s["rounds"] = draw(rounds_values(f.rounds, odd=f.base == "bsdi_crypt"))
    for k, vals in f.extra.items():
        if k == "bare_salt" and not allow_bare:
            continue  # not expressible through using(); exercised through reference-made strings in C02
        v = draw(st.sampled_from(vals))
        if v is not None:
            s[k] = v
    if f.base == "bcrypt_sha256" or name == "bcrypt_sha256":
        if s.get("version", 2) == 2:
            s["ident"] = "2b"
    if f.salt and explicit_salt:
        spec = f.salt
        if name == "scrypt" and s.get("ident") == "$7$":
            spec = ("h64", 0, 30)
            s["salt"] = draw(salts(spec)).encode("ascii")
        else:
            s["salt"] = draw(salts(spec))
    if "algs" in s:
        s["algs"] = s["algs"]
    return s


_users = st.one_of(st.sampled_from(["", "a", "ab", "usr", "user", "admin", "Administrator", "ÄÖü", "scott"]), st.text(st.one_of(_ascii, _two), min_size=0, max_size=12))


@st.composite
def contexts(draw, name):
    f = table.T[name]
    c = {}
    for k in f.ctx:
        if k == "user":
            u = draw(_users)
            if name in ("msdcc", "msdcc2", "oracle10", "postgres_md5", "htdigest") and not u:
                u = "u"
            if name == "htdigest":
                u = u.replace(":", "_")
            c["user"] = u
        elif k == "realm":
            c["realm"] = draw(st.sampled_from(["realm", "r", "Réalm one", "a b"]))
        elif k == "encoding":
            if name == "lmhash":
                e = draw(st.sampled_from([None, None, "cp437", "utf-8", "latin-1"]))
            else:
                e = draw(st.sampled_from([None, None, "utf-8", "latin-1", "utf-16-le"]))
            if e:
                c["encoding"] = e
    return c


def encodable(secret, ctx, name):
    """admissibility: text secret must be representable in the chosen encoding"""
    enc = ctx.get("encoding") or ("cp437" if name == "lmhash" else "utf-8")
    items = [secret.upper() if name == "lmhash" and isinstance(secret, str) else secret]
    items += [ctx[k] for k in ("user", "realm") if k in ctx and "encoding" in ctx]
    for it in items:
        if isinstance(it, str):
            try:
                it.encode(enc)
            except UnicodeEncodeError:
                return False
    return True


@st.composite
def near_misses(draw, p, count=4):
    """list of (label, p') single-edit neighbours of p (same type as p)"""
    is_text = isinstance(p, str)
    out = []
    kinds = ["subst", "delete", "insert", "prefix", "extend", "case", "highbit", "blank", "extend-long", "swap"]
    n = len(p)
    if n:
        # the two commonest boundary slips (last unit ignored / last unit optional) are always tried
        last = p[-1]
        out.append(("subst-last", p[:-1] + (("y" if last != "y" else "z") if is_text else bytes([(last ^ 1) or 3]))))
        out.append(("drop-last", p[:-1]))
    for _ in range(count):
        k = draw(st.sampled_from(kinds))
        if k == "subst" and n:
            i = draw(st.one_of(st.integers(0, n - 1), st.sampled_from([0, n - 1, min(n - 1, 7), min(n - 1, 8), min(n - 1, 71), min(n - 1, 72)])))
            if is_text:
                q = p[:i] + ("y" if p[i] != "y" else "z") + p[i + 1 :]
            else:
                q = p[:i] + bytes([(p[i] ^ draw(st.sampled_from([1, 2, 0x20, 0x40]))) or 1]) + p[i + 1 :]
        elif k == "delete" and n:
            i = draw(st.integers(0, n - 1))
            q = p[:i] + p[i + 1 :]
        elif k == "insert":
            i = draw(st.integers(0, n))
            q = p[:i] + ("q" if is_text else b"q") + p[i:]
        elif k == "prefix" and n:
            q = p[: draw(st.integers(0, n - 1))]
        elif k == "extend":
            q = p + (draw(st.sampled_from(["x", "0", "é"])) if is_text else draw(st.sampled_from([b"x", b"0", b"\xc3\xa9"])))
        elif k == "extend-long":
            q = p + (("xy" if is_text else b"xy") * draw(st.integers(1, 40)))
        elif k == "case" and n:
            q = p.swapcase()
        elif k == "highbit" and n and not is_text:
            i = draw(st.integers(0, n - 1))
            q = p[:i] + bytes([p[i] ^ 0x80 or 0x80]) + p[i + 1 :]
        elif k == "blank":
            i = draw(st.integers(0, n))
            bl = draw(st.sampled_from([" ", "\t", "  ", "\n", "\r", "\x0b", "\x0c", " \t"]))
            q = p[:i] + (bl if is_text else bl.encode()) + p[i:]
        elif k == "swap" and n >= 2:
            i = draw(st.integers(0, n - 2))
            q = p[:i] + p[i + 1 : i + 2] + p[i : i + 1] + p[i + 2 :]
        else:
            q = p + ("!" if is_text else b"!")
        if not is_text:
            q = bytes(q)
        out.append((k, q))
    return out
