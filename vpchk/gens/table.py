"""Format table (DESIGN.md 2.2): one record per registered hasher name.

For every hasher: cheap cost window, salt alphabet / size range, extra settings, context
keywords, admissible-secret class, canonical password key (documented equivalences)."""

from __future__ import annotations

H64 = "./0123456789ABCDEFGHIJKLMNOPQRSTUVWXYZabcdefghijklmnopqrstuvwxyz"
BC64 = "./ABCDEFGHIJKLMNOPQRSTUVWXYZabcdefghijklmnopqrstuvwxyz0123456789"
DJANGO_SALT = "abcdefghijklmnopqrstuvwxyzABCDEFGHIJKLMNOPQRSTUVWXYZ0123456789"
HEXU = "0123456789ABCDEF"


class Fmt:
    def __init__(self, name, salt=None, rounds=None, extra=None, ctx=(), secret="bytes", maxlen=None, key=None,
                 trunc=None, disabled=False, plaintext=False, needs_backend=None, base=None, prefix=""):
        self.name = name
        self.salt = salt  # (kind, min, max) kind in h64 bc64 bytes django hexu int
        self.rounds = rounds  # (lo, hi, [specials]) cheap window
        self.extra = extra or {}  # kw -> list of values
        self.ctx = tuple(ctx)
        self.secret = secret  # bytes | nonul | text | lm | ldap_plain
        self.maxlen = maxlen
        self.key = key or key_identity
        self.trunc = trunc
        self.disabled = disabled
        self.plaintext = plaintext
        self.needs_backend = needs_backend
        self.base = base or name  # underlying format for wrappers
        self.prefix = prefix


# ---- canonical keys (documented equivalences; see docs/lib/passlib.hash.<name>.rst) --------------
def _b(p, enc="utf-8"):
    return p.encode(enc) if isinstance(p, str) else bytes(p)


def _t(p, enc="utf-8"):
    return p.decode(enc) if isinstance(p, (bytes, bytearray)) else p


def key_identity(p, s, c):
    return _b(p)


def _key_des_n(n):
    # "The lower 7 bits of the first 8 characters of the password are used" (des_crypt.rst)
    def k(p, s, c):
        b = _b(p)[:n]
        return bytes(x & 0x7F for x in b) + b"\0" * (n - len(b))

    return k


def key_des_blocks(p, s, c):
    # bigcrypt.rst / bsdi_crypt.rst: NUL padded to a multiple of 8, 7 bits per byte, every block used
    b = _b(p)
    b = b + b"\0" * (-len(b) % 8) if b else b"\0" * 8
    return (len(b) // 8, bytes(x & 0x7F for x in b))


def key_bcrypt(p, s, c):
    b = _b(p)
    ident = s.get("ident", "$2b$")
    if ident.endswith("$2$") and b:
        return (b * (72 // len(b) + 1))[:72]
    return b[:72]


def key_lmhash(p, s, c):
    enc = c.get("encoding") or "cp437"
    if isinstance(p, str):
        raw = p.upper().encode(enc)
    else:
        raw = p.upper()
    return (raw + b"\0" * 14)[:14]


def key_upper_text(p, s, c):
    return _t(p).upper()


def key_text(p, s, c):
    return _t(p)


def key_mysql323(p, s, c):
    return bytes(x for x in _b(p) if x not in (0x20, 0x09))


def key_scram(p, s, c):
    from ..refs.formats import saslprep

    return saslprep(_t(p))


def key_cisco(asa):
    def k(p, s, c):
        b = _b(p)
        user = c.get("user")
        buf = b
        if user and not (asa and len(b) >= 28):
            u = _b(user)
            if u:
                buf += (u * 4)[:4]
        size = 32 if asa and len(buf) > 16 else 16
        return (buf + b"\0" * size)[:size]

    return k


def key_hmac(alg):
    """formats that use the password as an HMAC key (PBKDF2 / scrypt): RFC 2104 replaces a key longer than the hash block by
    its digest and zero-pads shorter ones, so keys differing only in trailing NUL bytes are the same key"""
    import hashlib

    def k(p, s, c):
        b = _b(p)
        bs = hashlib.new(alg).block_size
        if len(b) > bs:
            b = hashlib.new(alg, b).digest()
        return b + b"\0" * (bs - len(b))

    return k


def key_htdigest(p, s, c):
    return _b(p, c.get("encoding") or "utf-8")


def key_oracle10(p, s, c):
    return (_t(c["user"]) + _t(p)).upper()


# ---- the table --------------------------------------------------------------------------------
CRYPT_R = (1000, 1100, [1000, 1001, 1042, 1043, 1083, 1084, 1085, 5000])
PB_R = (1, 300, [1, 2, 3, 42, 299, 300])
T = {}


def add(f):
    T[f.name] = f
    return f


add(Fmt("des_crypt", salt=("h64", 2, 2), secret="nonul", key=_key_des_n(8), trunc=8))
# NOTE: using(rounds=even) is documented to be bumped to the next odd value (even rounds are weak for DES);
#       even rounds are exercised through reference-made strings (verify direction) in C02
add(Fmt("bsdi_crypt", salt=("h64", 4, 4), rounds=(1, 121, [1, 3, 5, 25, 63, 65, 119, 121]), secret="nonul", key=key_des_blocks))
add(Fmt("bigcrypt", salt=("h64", 2, 2), secret="nonul", key=key_des_blocks))
add(Fmt("crypt16", salt=("h64", 2, 2), secret="nonul", key=_key_des_n(16), trunc=16))
add(Fmt("md5_crypt", salt=("h64", 0, 8), secret="nonul"))
add(Fmt("apr_md5_crypt", salt=("h64", 0, 8), secret="nonul"))
add(Fmt("sha1_crypt", salt=("h64", 0, 64), rounds=(1, 400, [1, 2, 3, 399]), secret="nonul"))
add(Fmt("sha256_crypt", salt=("h64", 0, 16), rounds=CRYPT_R, secret="nonul"))
add(Fmt("sha512_crypt", salt=("h64", 0, 16), rounds=CRYPT_R, secret="nonul"))
add(Fmt("sun_md5_crypt", salt=("h64", 0, 12), rounds=(0, 40, [0, 1, 2]), extra={"bare_salt": [False, False, True]}, secret="nonul"))
add(Fmt("bcrypt", salt=("bc64", 22, 22), rounds=(4, 4, [4, 4, 4, 5]), extra={"ident": ["2b", "2a", "2y", "2"]}, secret="nonul",
        key=key_bcrypt, trunc=72, needs_backend="bcrypt"))
add(Fmt("bcrypt_sha256", salt=("bc64", 22, 22), rounds=(4, 4, [4, 4, 5]), extra={"version": [2, 2, 1], "ident": ["2b", "2a"]},
        secret="bytes", needs_backend="bcrypt"))
add(Fmt("phpass", salt=("h64", 8, 8), rounds=(7, 8, [7, 7, 8]), extra={"ident": ["P", "H"]}))
add(Fmt("pbkdf2_sha1", salt=("bytes", 0, 40), rounds=PB_R, key=key_hmac("sha1")))
add(Fmt("pbkdf2_sha256", salt=("bytes", 0, 40), rounds=PB_R, key=key_hmac("sha256")))
add(Fmt("pbkdf2_sha512", salt=("bytes", 0, 40), rounds=PB_R, key=key_hmac("sha512")))
add(Fmt("cta_pbkdf2_sha1", salt=("bytes", 0, 40), rounds=PB_R, key=key_hmac("sha1")))
add(Fmt("dlitz_pbkdf2_sha1", salt=("h64", 0, 40), rounds=(1, 410, [1, 2, 399, 400, 401]), key=key_hmac("sha1")))
add(Fmt("atlassian_pbkdf2_sha1", salt=("bytes", 16, 16), key=key_hmac("sha1")))
add(Fmt("grub_pbkdf2_sha512", salt=("bytes", 0, 70), rounds=PB_R, key=key_hmac("sha512")))
add(Fmt("scram", salt=("bytes", 0, 30), rounds=(1, 60, [1, 2, 59]),
        extra={"algs": [None, None, "sha-1", "sha-1,sha-256", "sha-1,md5", "sha-1,sha-512,sha-256", "sha-1,sha-224,sha-384"]},
        secret="sasl", key=key_scram))
add(Fmt("scrypt", salt=("bytes", 0, 30), rounds=(1, 5, [1, 2, 3, 4, 5]),
        extra={"ident": ["$scrypt$", "$scrypt$", "$7$"], "block_size": [1, 2, 3, 8], "parallelism": [1, 1, 2, 3]}, key=key_hmac("sha256")))
add(Fmt("fshp", salt=("bytes", 0, 40), rounds=PB_R, extra={"variant": [0, 1, 2, 3, "sha256", "1"]}))
add(Fmt("cisco_pix", ctx=("user",), maxlen=16, key=key_cisco(False), trunc=16))
add(Fmt("cisco_asa", ctx=("user",), maxlen=32, key=key_cisco(True), trunc=32))
add(Fmt("cisco_type7", salt=("int", 0, 15), secret="text", plaintext=True))
add(Fmt("lmhash", ctx=("encoding",), secret="lm", key=key_lmhash, trunc=14))
add(Fmt("nthash", secret="text", key=key_text))
add(Fmt("bsd_nthash", secret="text", key=key_text, base="nthash", prefix="$3$$"))
add(Fmt("msdcc", ctx=("user",), secret="text", key=key_text))
add(Fmt("msdcc2", ctx=("user",), secret="text", key=key_text))
add(Fmt("mssql2000", salt=("bytes", 4, 4), secret="text", key=key_upper_text))
add(Fmt("mssql2005", salt=("bytes", 4, 4), secret="text", key=key_text))
add(Fmt("mysql323", key=key_mysql323))
add(Fmt("mysql41"))
add(Fmt("oracle10", ctx=("user",), secret="text", key=key_oracle10))
add(Fmt("oracle11", salt=("hexu", 20, 20)))
add(Fmt("postgres_md5", ctx=("user",)))
for _n in ("hex_md4", "hex_md5", "hex_sha1", "hex_sha256", "hex_sha512", "ldap_md5", "ldap_sha1", "ldap_hex_md5", "ldap_hex_sha1", ):
    add(Fmt(_n))
add(Fmt("ldap_salted_md5", salt=("bytes", 4, 16)))
add(Fmt("ldap_salted_sha1", salt=("bytes", 4, 16)))
add(Fmt("ldap_salted_sha256", salt=("bytes", 4, 16)))
add(Fmt("ldap_salted_sha512", salt=("bytes", 4, 16)))
add(Fmt("ldap_pbkdf2_sha1", salt=("bytes", 0, 40), rounds=PB_R, base="pbkdf2_sha1", key=key_hmac("sha1")))
add(Fmt("ldap_pbkdf2_sha256", salt=("bytes", 0, 40), rounds=PB_R, base="pbkdf2_sha256", key=key_hmac("sha256")))
add(Fmt("ldap_pbkdf2_sha512", salt=("bytes", 0, 40), rounds=PB_R, base="pbkdf2_sha512", key=key_hmac("sha512")))
for _n in ("md5_crypt", "sha1_crypt", "sha256_crypt", "sha512_crypt", "des_crypt", "bsdi_crypt", "bcrypt"):
    _f = T[_n]
    add(Fmt("ldap_" + _n, salt=_f.salt, rounds=_f.rounds, extra=_f.extra, secret=_f.secret, key=_f.key, trunc=_f.trunc,
            needs_backend=_f.needs_backend, base=_n, prefix="{CRYPT}"))
add(Fmt("htdigest", ctx=("user", "realm", "encoding"), secret="text_enc", key=key_htdigest))
add(Fmt("django_salted_md5", salt=("django", 0, 20)))
add(Fmt("django_salted_sha1", salt=("django", 0, 20)))
add(Fmt("django_pbkdf2_sha1", salt=("django", 1, 20), rounds=PB_R, key=key_hmac("sha1")))
add(Fmt("django_pbkdf2_sha256", salt=("django", 1, 20), rounds=PB_R, key=key_hmac("sha256")))
add(Fmt("django_des_crypt", salt=("h64", 2, 6), secret="nonul", key=_key_des_n(8), trunc=8))
add(Fmt("django_bcrypt", salt=("bc64", 22, 22), rounds=(4, 4, [4, 4, 4, 5]), extra={"ident": ["2b", "2a", "2y", "2"]}, secret="nonul",
        key=key_bcrypt, trunc=72, needs_backend="bcrypt", base="bcrypt", prefix="bcrypt$"))
add(Fmt("django_bcrypt_sha256", salt=("bc64", 22, 22), rounds=(4, 4, [4, 4, 5]), extra={"ident": ["2b", "2a", "2y"]}, secret="bytes",
        needs_backend="bcrypt"))
add(Fmt("plaintext", ctx=("encoding",), secret="text_enc", plaintext=True, key=key_htdigest))
add(Fmt("ldap_plaintext", ctx=("encoding",), secret="ldap_plain", plaintext=True, key=key_htdigest))
add(Fmt("roundup_plaintext", ctx=("encoding",), secret="text_enc", plaintext=True, key=key_htdigest, prefix="{plaintext}"))
add(Fmt("unix_disabled", extra={"marker": [None, "!", "*"]}, disabled=True))
add(Fmt("django_disabled", disabled=True))
add(Fmt("argon2", needs_backend="argon2"))
add(Fmt("django_argon2", needs_backend="argon2"))

#: hashers the crypt(3) NUL rule applies to (documented: "NullPasswordError ... crypt()-compatible")
NUL_REFUSING = [n for n, f in T.items() if f.secret == "nonul"]


def check_complete():
    """a newly registered hasher must not silently escape: the table covers the whole registry"""
    from passlib import registry

    names = set(registry.list_crypt_handlers())
    missing = names - set(T)
    extra = set(T) - names
    return sorted(missing), sorted(extra)


_avail = {}


def available(name) -> bool:
    """can digests of this hasher be computed on this host?  Decided independently of passlib:
    bcrypt formats need the pyca `bcrypt` package, argon2 formats argon2-cffi."""
    f = T[name]
    kind = f.needs_backend
    if kind not in _avail:
        ok = True
        if kind == "argon2":
            try:
                import argon2  # noqa: F401
                from argon2 import low_level  # noqa: F401
            except Exception:  # noqa: BLE001
                ok = False
        elif kind == "bcrypt":
            try:
                import bcrypt

                ok = bcrypt.hashpw(b"x", b"$2b$04$abcdefghijklmnopqrstuu").startswith(b"$2b$04$")
            except Exception:  # noqa: BLE001
                ok = False
        _avail[kind] = ok
    return _avail[kind]


def handler(name):
    from passlib import registry

    return registry.get_crypt_handler(name)
