"""Hypothesis strategies for CryptContext configurations (shared by C04 and C10)."""

from __future__ import annotations

from hypothesis import strategies as st

from .. import ctxmodel
from . import table

#: scheme -> cheap rounds window (None: no rounds)
POOL = {
    "des_crypt": None, "md5_crypt": None, "hex_md5": None, "ldap_salted_sha1": None, "mysql41": None, "apr_md5_crypt": None,
    "sha256_crypt": (1000, 2500), "sha512_crypt": (1000, 2500), "sha1_crypt": (1, 1500), "bsdi_crypt": (1, 201), "pbkdf2_sha256": (1, 400),
    "phpass": (7, 9), "bcrypt": (4, 5), "ldap_pbkdf2_sha1": (1, 400), "django_pbkdf2_sha256": (1, 400), "pbkdf2_sha512": (1, 300),
}
CATCHALL = ["plaintext", "unix_disabled"]
GLOBAL_VARY_KEYS = ["vary_rounds", "all__vary_rounds"]
#: 1.0 / "100%" sit on the float/int boundary of the INI renderer; 0.125, 0.3333, 0.995 need more than its two pretty decimals
GLOBAL_VARY_VALUES = [0.1, "10%", 0.25, 0.5, 1.0, "100%", "1.0", 0, 2, "3", 0.125, "12.5%", 0.3333, 0.07, 0.995, "7%"]
CATS = ["admin", "staff"]


def pool():
    return [s for s in POOL if table.available(s)]


@st.composite
def rounds_options(draw, scheme, allow_beyond=True):
    """dict of rounds-related options for one scheme (may be empty)"""
    win = POOL[scheme]
    if win is None:
        return {}
    lo, hi = win
    h = table.handler(scheme)
    form = draw(st.sampled_from(["none", "rounds", "rounds", "triple", "triple", "min-default", "max-only", "default-only", "max-default"]))
    val = st.integers(lo, hi)
    out = {}
    if form == "none":
        # class default may be expensive: pin the cost
        out["default_rounds"] = draw(val)
    elif form == "rounds":
        r = draw(val)
        if allow_beyond and draw(st.integers(0, 9)) == 0:
            r = draw(st.sampled_from([h.min_rounds - 1, 0, h.min_rounds]))  # below the hard limit: clamped (relaxed)
        out["rounds"] = r
    else:
        a, b, c = sorted([draw(val), draw(val), draw(val)])
        if form == "triple":
            out.update(min_rounds=a, default_rounds=b, max_rounds=c)
        elif form == "min-default":
            out.update(min_rounds=a, default_rounds=b)
        elif form == "max-only":
            out.update(max_rounds=c)
        elif form == "default-only":
            out.update(default_rounds=b)
        else:
            out.update(default_rounds=b, max_rounds=c)
        if allow_beyond and draw(st.integers(0, 12)) == 0 and "min_rounds" in out:
            out["min_rounds"] = h.min_rounds - 1  # clamped to the hard minimum
    if draw(st.integers(0, 9)) == 0:
        out["vary_rounds"] = draw(st.sampled_from([0, 1, 5, "10%", 0.1, "3", 0.125, "7%", 0.3333]))
    if draw(st.integers(0, 5)) == 0:
        out = {k: (str(v) if isinstance(v, int) else v) for k, v in out.items()}
    return out


@st.composite
def configs(draw, max_schemes=5, cats=True, catchall=True, extras=False):
    """-> config dict (flat keys), valid by construction in the common case.
    extras (C10): a scheme with a context keyword (postgres_md5: user=) and the documented global settings in both spellings"""
    names = draw(st.lists(st.sampled_from(pool()), min_size=1, max_size=max_schemes, unique=True))
    if extras and draw(st.integers(0, 3)) == 0:
        names.insert(draw(st.integers(0, len(names))), "postgres_md5")
    if catchall and draw(st.integers(0, 5)) == 0:
        names.append(draw(st.sampled_from(CATCHALL)))
    cfg = {"schemes": list(names)}
    real = [n for n in names if n not in CATCHALL and n != "postgres_md5"] or names
    dep_kind = draw(st.sampled_from(["none", "none", "list", "list", "auto"]))
    default = draw(st.one_of(st.none(), st.sampled_from(real)))
    if dep_kind == "auto":
        cfg["deprecated"] = ["auto"]
    elif dep_kind == "list" and len(names) > 1:
        cand = [n for n in names if n != default]
        dep = draw(st.lists(st.sampled_from(cand), min_size=1, max_size=len(cand), unique=True))
        if default is None and set(dep) >= set(names):
            dep = dep[:-1]
        if dep:
            cfg["deprecated"] = dep
    if default is not None:
        cfg["default"] = default
    for s in names:
        if s in POOL:
            for k, v in draw(rounds_options(s)).items():
                cfg[f"{s}__{k}"] = v
        if s in ("md5_crypt", "sha256_crypt", "ldap_salted_sha1", "pbkdf2_sha256") and draw(st.integers(0, 6)) == 0:
            cfg[f"{s}__salt_size"] = draw(st.integers(4, 8))
        if s == "phpass" and draw(st.booleans()):
            cfg["phpass__ident"] = draw(st.sampled_from(["P", "H"]))
    if extras and draw(st.integers(0, 2)) == 0:
        cfg[draw(st.sampled_from(GLOBAL_VARY_KEYS))] = draw(st.sampled_from(GLOBAL_VARY_VALUES))
    if extras and draw(st.integers(0, 4)) == 0:
        cfg[draw(st.sampled_from(["truncate_error", "all__truncate_error"]))] = draw(st.sampled_from([True, False, "true", "false"]))
    if cats and draw(st.booleans()):
        for cat in draw(st.lists(st.sampled_from(CATS), min_size=1, max_size=2, unique=True)):
            k = draw(st.integers(0, 3))
            if k in (0, 3):
                s = draw(st.sampled_from(names))
                if s in POOL and POOL[s]:
                    for key, v in draw(rounds_options(s, allow_beyond=False)).items():
                        cfg[f"{cat}__{s}__{key}"] = v
            if k in (1, 3):
                cand = [n for n in real]
                cfg[f"{cat}__context__default"] = draw(st.sampled_from(cand))
            if k == 2 and len(names) > 1:
                cdef = cfg.get(f"{cat}__context__default", default)
                cand = [n for n in names if n != cdef]
                dep = draw(st.lists(st.sampled_from(cand), min_size=1, max_size=len(cand), unique=True))
                if cdef is None and set(dep) >= set(names):
                    dep = dep[:-1]
                if dep:
                    cfg[f"{cat}__context__deprecated"] = dep
            if k == 3 and draw(st.integers(0, 5)) == 0 and f"{cat}__context__default" in cfg:
                # inconsistent on purpose (the documented rules refuse it): the category's own default is deprecated for that category
                cfg[f"{cat}__context__deprecated"] = [cfg[f"{cat}__context__default"]]
    return repair_costs(cfg)


def repair_costs(cfg):
    """make sure no (scheme, category) ends up with an expensive effective default: pin `rounds` where needed"""
    try:
        m = ctxmodel.Model(cfg)
    except ctxmodel.ConfigError:
        return cfg
    for s in m.names:
        win = POOL.get(s)
        if not win:
            continue
        for cat in [None] + sorted(m.cats):
            try:
                w = m.rounds_window(s, cat)
            except ctxmodel.ConfigError:
                continue
            if w and w[2] is not None and w[2] > win[1] * 2:
                key = f"{cat}__{s}__max_rounds" if cat else f"{s}__max_rounds"
                cfg[key] = win[1]
                try:
                    m = ctxmodel.Model(cfg)
                except ctxmodel.ConfigError:
                    return cfg
    return cfg


def categories_for(cfg):
    cats = {None, "guest"}
    for k in cfg:
        parts = k.split("__")
        if len(parts) == 3 and parts[0] != "default":
            cats.add(parts[0])
    return sorted(cats, key=lambda c: c or "")
