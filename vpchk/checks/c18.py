"""C18 -- a disabled account can never log in and can be restored intact."""

from __future__ import annotations

import hashlib

from ..common import Recorder, Violation, call, hyp_campaign, hyp_machine, machine_fail, machine_guard, oracle
from ..gens import table
from .c02 import fixed_settings

PROPERTY = "C18"
LEVEL = "exploration"
RULE = (
    "Contexts with unix_disabled (both markers, custom marker=) or django_disabled at any admissible list position among 1-4 other "
    "schemes (incl. mysql41 whose hashes begin with '*', des_crypt, md5_crypt, sha256_crypt, pbkdf2, ldap and django hashers) x "
    "original in {hash from every scheme, None, '', already-disabled strings of both marker styles with and without an embedded "
    "original} x passwords {'', p, the hash text, the disabled text}; plus a rule-based machine over disable/enable/verify/"
    "is_enabled sequences with a model of (enabled hash | disabled with/without embedded original). Oracle: d=disable(o): "
    "is_enabled(d) False, verify(x,d) False for all x, identify(d) is the disabled scheme, disable(d) stays disabled and keeps the "
    "same original; enable(d)==o exactly when o was a non-empty enabled hash, ValueError when nothing is embedded (always for "
    "django_disabled); enable(normal)==normal; verify(x,None) False and verify_and_update(x,None)==(False,None) with exactly one "
    "dummy verification (counted through a counting hasher used as default scheme). Non-trivial = an original hash is present and "
    ">=2 operations, or the original starts with a marker character."
)
ASSUMPTIONS = [
    "first-match attribution makes two orders meaningless for this property and they are not generated: a catch-all scheme before the disabled scheme, "
    "and the disabled scheme before a scheme whose own hashes begin with a marker character; which schemes are affected is determined from identify() on probes",
]
LEVEL_TEXT = (
    "Seeded generated contexts x originals x passwords with an exact oracle for every disable/enable/verify outcome, a rule-based "
    "state machine over operation sequences checked against a small model, and a counting hasher to observe the dummy verification."
)
LEVEL_NOTE = "Trusted: the 30-line model in this file, Hypothesis."
TECHNIQUE = "Hypothesis + rule-based state machine against a model of disabled/enabled account strings"
#: thorough tier: seed-dependent tasks are repeated under this many derived seeds (run.py); the listed task functions enumerate fixed domains
THOROUGH_REPS = 8
DETERMINISTIC_FNS = ()
RULE += " Missing-hash calls are repeated after the context's policy was changed by load()/update(): still False, no exception, no work under the removed default."

OTHER = ["md5_crypt", "sha256_crypt", "des_crypt", "mysql41", "pbkdf2_sha256", "ldap_salted_sha1", "hex_md5", "bsdi_crypt", "phpass", "sha512_crypt", "nthash"]
DJ_OTHER = ["django_pbkdf2_sha256", "django_salted_sha1", "django_salted_md5", "hex_md5", "django_des_crypt"]
MARKERS = "!*"


def counting_hasher():
    """a cheap custom hasher that counts digest computations (used as default scheme to observe dummy_verify)"""
    import passlib.utils.handlers as uh

    class counting_md5(uh.StaticHandler):
        name = "counting_md5"
        _hash_prefix = "$cnt$"
        checksum_chars = uh.LOWER_HEX_CHARS
        checksum_size = 32
        calls = 0

        def _calc_checksum(self, secret):
            counting_md5.calls += 1  # on the base class: contexts work with using()-derived subclasses
            if isinstance(secret, str):
                secret = secret.encode("utf-8")
            return hashlib.md5(secret).hexdigest()

    return counting_md5


def build_context(spec):
    """spec: {schemes:[...], disabled: name, pos: index, marker?, counting?}"""
    from passlib.context import CryptContext

    schemes = list(spec["schemes"])
    opts = {}
    for s in schemes:
        fs = fixed_settings(s, 0)
        if "rounds" in fs:
            opts[f"{s}__rounds"] = fs["rounds"]
    dis = spec["disabled"]
    schemes.insert(min(spec["pos"], len(schemes)), dis)
    if spec.get("marker"):
        opts["unix_disabled__marker"] = spec["marker"]
    # a catch-all scheme listed AFTER the disabled one (the documented order) and chosen as default, globally or for one user
    # category; a scheme that takes user= listed last -- neither may change what happens to a disabled string
    if spec.get("plaintext_default") and not spec.get("counting"):
        schemes.append("plaintext")
        opts["default" if spec["plaintext_default"] == "global" else "admin__context__default"] = "plaintext"
    if spec.get("user_scheme"):
        schemes.append("postgres_md5")
    counter = None
    if spec.get("counting"):
        counter = counting_hasher()
        schemes = [counter] + schemes
    ctx = CryptContext(schemes=schemes, **opts)
    return ctx, counter, [s if isinstance(s, str) else s.name for s in schemes]


def admissible(spec):
    """the two meaningless orders of the soundness note"""
    schemes = list(spec["schemes"])
    dis = spec["disabled"]
    pos = min(spec["pos"], len(schemes))
    after = schemes[pos:]
    for s in after:
        h = table.handler(s)
        sample = h.using(**{k: v for k, v in fixed_settings(s, 0).items()}).hash("pw") if fixed_settings(s, 0) else h.hash("pw")
        if sample[:1] in MARKERS:
            return False  # disabled scheme would claim that scheme's own hashes
    return True


def make_original(spec, kind, i):
    """-> (original, embedded original the model expects, scheme or None)"""
    schemes = spec["schemes"]
    if kind == "none":
        return None, None
    if kind == "empty":
        return "", None
    if kind == "hash":
        s = schemes[i % len(schemes)]
        fs = fixed_settings(s, i)
        h = table.handler(s)
        hs = (h.using(**fs) if fs else h).hash("pw")
        first = next(n for n in schemes if table.handler(n).identify(hs))
        if first != s:
            # same-shaped formats in one context (nthash / hex_md5): the context attributes the hash to the earlier one (C04);
            # an account of this context carries a hash of the scheme that claims it
            hs = table.handler(first).hash("pw")
        return hs, hs
    m = "!" if kind.startswith("bang") else "*"
    if kind.endswith("bare"):
        return m, None
    inner = make_original(spec, "hash", i)[0]
    if spec["disabled"] == "django_disabled":
        return m + "abcdef", None
    return m + inner, inner


@oracle(PROPERTY, "disable_enable")
def o_disable(rec: Recorder, case, soft=False):
    """case: {spec, kind, i, password}"""
    spec, kind, i, pw = case["spec"], case["kind"], case.get("i", 0), case.get("password", "pw")
    ctx, counter, names = build_context(spec)
    dis = spec["disabled"]
    orig, embedded = make_original(spec, kind, i)
    marker_orig = isinstance(orig, str) and orig[:1] in MARKERS and kind == "hash"
    st, d = call(ctx.disable, orig) if orig is not None or case.get("explicit_none") else call(ctx.disable)
    if st == "err":
        rec.fail(f"C18/disable-raises/{dis}/{kind}", f"disable() of a{'n already-disabled' if kind not in ('hash', 'none', 'empty') else ''} {kind} original raises", "disable_enable", case, repr(d), "a disabled string", soft=soft)
        return
    if not isinstance(d, str):
        rec.fail(f"C18/disable-type/{dis}", "disable() did not return str", "disable_enable", case, repr(d), "str", soft=soft)
        return
    if ctx.is_enabled(d) is not False:
        sub = "/marker-prefixed-original" if marker_orig else ""
        rec.fail(f"C18/still-enabled/{dis}{sub}", "is_enabled(disable(o)) is not False", "disable_enable", case, d, False, soft=soft)
        return
    if ctx.identify(d) != dis:
        rec.fail(f"C18/disabled-not-identified/{dis}", "the disabled string is not attributed to the disabled scheme", "disable_enable", case, ctx.identify(d), dis, soft=soft)
        return
    extra = []
    if spec.get("plaintext_default") == "category":
        extra.append({"category": "admin"})
    if spec.get("user_scheme"):
        extra += [{"user": "bob"}] + [dict(k, user="bob") for k in extra]
    for x in ("", pw, orig or "x", d, d[1:] or "y"):
        st, r = call(ctx.verify, x, d)
        if st == "err" or r is not False:
            rec.fail(f"C18/disabled-verifies/{dis}", "a password verifies against a disabled account string (or verify raises)", "disable_enable", dict(case, tried=x), repr(r), False, soft=soft)
            return
        for kw in extra:
            for fn, want in ((ctx.verify, False), (ctx.verify_and_update, (False, None))):
                st, r = call(fn, x, d, **kw)
                if st == "err" or r != want or (want is False and r is not False):
                    rec.fail(f"C18/disabled-verifies/{dis}/{'+'.join(sorted(kw))}", f"{fn.__name__}(…, {', '.join(sorted(kw))}=…) against a disabled account string is not {want} (or raises)", "disable_enable", dict(case, tried=x, kw=kw), repr(r), want, soft=soft)
                    return
        st, r = call(ctx.verify_and_update, x, d)
        if st == "err" or r != (False, None):
            rec.fail(f"C18/disabled-verify-and-update/{dis}", "verify_and_update against a disabled string is not (False, None)", "disable_enable", dict(case, tried=x), repr(r), (False, None), soft=soft)
            return
    # enable
    st, e = call(ctx.enable, d)
    restorable = embedded is not None and dis == "unix_disabled"
    if restorable:
        if st == "err" or e != embedded:
            sub = "marker-prefixed-original" if marker_orig else kind
            rec.fail(f"C18/enable-not-original/{dis}/{sub}", "enable(disable(o)) does not return the original hash", "disable_enable", case, repr(e), embedded, soft=soft)
            return
    else:
        if not (st == "err" and isinstance(e, ValueError)):
            rec.fail(f"C18/enable-without-original/{dis}", "enable() of a disabled string with nothing embedded does not raise ValueError", "disable_enable", case, repr(e), "ValueError", soft=soft)
            return
    # disabling again
    st, d2 = call(ctx.disable, d)
    if st == "err" or ctx.is_enabled(d2) is not False:
        rec.fail(f"C18/redisable/{dis}", "disabling a disabled string raises or yields an enabled string", "disable_enable", case, repr(d2), "disabled", soft=soft)
        return
    st, e2 = call(ctx.enable, d2)
    if restorable and (st == "err" or e2 != embedded):
        rec.fail(f"C18/redisable-loses-original/{dis}", "disable(disable(o)) no longer embeds the original", "disable_enable", case, repr(e2), embedded, soft=soft)
        return
    if not restorable and not (st == "err" and isinstance(e2, ValueError)):
        rec.fail(f"C18/redisable-invents-original/{dis}", "disable(disable(o)) embeds an original that was never given", "disable_enable", case, repr(e2), "ValueError", soft=soft)
        return
    # the stored string may be handed in as ASCII bytes (as read from a shadow file): same answers as for the text
    if orig is not None and not marker_orig:
        forms = [("disable", lambda x: ctx.disable(x), orig), ("is_enabled", lambda x: ctx.is_enabled(x), d), ("identify", lambda x: ctx.identify(x), d),
                 ("verify", lambda x: ctx.verify(pw, x), d), ("disable-disabled", lambda x: ctx.disable(x), d)]
        if restorable:
            forms.append(("enable", lambda x: ctx.enable(x), d))
        for label, fn, text in forms:
            if not text.isascii():
                continue
            a, b = call(fn, text), call(fn, text.encode("ascii"))
            if dis == "django_disabled" and label.startswith("disable") and a[0] == b[0] == "ok":
                a, b = ("ok", (a[1][:1], len(a[1]))), ("ok", (b[1][:1], len(b[1])))  # random suffix: compare the shape
            if a[0] == "ok" and (b[0] == "err" or a[1] != b[1]):
                rec.fail(f"C18/bytes-form/{dis}/{label}", f"{label}() answers differently for the ASCII-bytes form of the stored string", "disable_enable", case, repr(b[1])[:120], repr(a[1])[:120], soft=soft)
                return
    # a normal hash is returned unchanged by enable(), and is enabled
    if kind == "hash" and not marker_orig:
        if ctx.enable(orig) != orig or ctx.is_enabled(orig) is not True:
            rec.fail(f"C18/enable-normal/{dis}", "enable(normal hash) != the hash, or is_enabled(normal) is not True", "disable_enable", case, None, None, soft=soft)


@oracle(PROPERTY, "missing_hash")
def o_missing(rec: Recorder, case, soft=False):
    """verify against None: False, (False, None), and exactly one dummy verification"""
    # (no user= scheme here: after a reconfiguration it could become the default, and a caller of such a context always passes user=)
    spec = dict(case["spec"], counting=True, user_scheme=False)
    ctx, counter, names = build_context(spec)
    # the dummy hash itself is created lazily on first use (one extra digest, once): warm up, then count
    counter.calls = 0
    ctx.dummy_verify()
    if not 1 <= counter.calls <= 2:
        rec.fail("C18/dummy-verify", "first dummy_verify() performs no (or more than hash+verify) digest computations", "missing_hash", case, counter.calls, "1..2", soft=soft)
        return
    for x in ("", "pw", case.get("password", "pässword")):
        counter.calls = 0
        r = ctx.verify(x, None)
        c1 = counter.calls
        if r is not False or c1 != 1:
            rec.fail("C18/verify-none", "verify(x, None) is not False or does not cost exactly one dummy verification", "missing_hash", case, [r, c1], [False, 1], soft=soft)
            return
        counter.calls = 0
        r = ctx.verify_and_update(x, None)
        if r != (False, None) or counter.calls != 1:
            rec.fail("C18/verify-and-update-none", "verify_and_update(x, None) is not (False, None) or does not cost exactly one dummy verification", "missing_hash", case, [r, counter.calls], [(False, None), 1], soft=soft)
            return
        counter.calls = 0
        if ctx.dummy_verify() is not False or counter.calls != 1:
            rec.fail("C18/dummy-verify", "dummy_verify() is not False or does not perform exactly one verification", "missing_hash", case, counter.calls, 1, soft=soft)
            return
    # the policy of a context that has already answered for a missing hash is changed: it keeps answering False, under the new policy
    reconf = case.get("reconf")
    if not reconf:
        return
    others = [n for n in names if n != counter.name]
    real = [n for n in others if n not in ("unix_disabled", "django_disabled")]
    if reconf == "load-replace":
        st, r = call(ctx.load, {"schemes": others})
    elif reconf == "load-other":
        st, r = call(ctx.load, {"schemes": ["md5_crypt", "hex_md5"]})
    elif reconf == "update-schemes":
        st, r = call(ctx.update, schemes=others)
    elif reconf == "load-string":
        from passlib.context import CryptContext

        st, r = call(ctx.load, CryptContext(schemes=others).to_string())
    else:
        st, r = call(ctx.update, default=real[-1]) if real else ("skip", None)
    if st == "skip":
        return
    if st == "err":
        rec.fail(f"C18/reconfigure-raises/{reconf}", "changing the policy of a context raises", "missing_hash", case, repr(r), None, soft=soft)
        return
    removed = counter.name not in ctx.schemes()
    counter.calls = 0
    for label, fn, want in (("verify", lambda: ctx.verify("pw", None), False), ("verify_and_update", lambda: ctx.verify_and_update("pw", None), (False, None)), ("dummy_verify", ctx.dummy_verify, False)):
        st, r = call(fn)
        if st == "err" or r != want:
            rec.fail(f"C18/missing-hash-after-reconfigure/{label}", f"{label}() against a missing hash after the context's policy was changed ({reconf}) is not {want!r}", "missing_hash", case, repr(r), repr(want), soft=soft)
            return
    if removed and counter.calls:
        rec.fail("C18/dummy-verify-under-old-policy", "after the policy change the dummy verification still runs the removed default scheme", "missing_hash", case, counter.calls, 0, soft=soft)


# ---- machine ---------------------------------------------------------------------------------------
def apply_ops(rec, hist, soft=False):
    """hist: {spec, ops:[["disable"] | ["enable"] | ["verify", k] | ["is_enabled"] | ["rehash", i]]}; model = (cur, enabled?, embedded)"""
    spec = hist["spec"]
    ctx, _, _ = build_context(spec)
    dis = spec["disabled"]
    cur, embedded = make_original(spec, "hash", 0)
    enabled = True
    nontrivial = False
    nops = 0
    marker_orig = False
    for i, op in enumerate(hist["ops"]):
        sub = {"spec": spec, "ops": hist["ops"][: i + 1]}
        nops += 1
        if op[0] == "disable":
            st, r = call(ctx.disable, cur)
            if st == "err":
                rec.fail(f"C18/machine/disable-raises/{dis}", "disable() raises in an operation sequence", "history", sub, repr(r), None, soft=soft)
                return nontrivial
            if enabled:
                embedded = cur if dis == "unix_disabled" else None
                if dis == "unix_disabled" and cur[:1] in MARKERS:
                    marker_orig = True  # the recorded finding: an original that itself begins with a marker character (mysql41 '*...')
            cur, enabled = r, False
        elif op[0] == "enable":
            st, r = call(ctx.enable, cur)
            if enabled:
                if st == "err" or r != cur:
                    rec.fail(f"C18/machine/enable-normal/{dis}", "enable() of an enabled hash does not return it unchanged", "history", sub, repr(r), cur, soft=soft)
                    return nontrivial
            elif embedded is not None:
                if marker_orig and (st == "err" or r != embedded):
                    rec.fail(f"C18/enable-not-original/{dis}/marker-prefixed-original", "enable() does not restore a marker-prefixed original (operation sequence)", "history", sub, repr(r), embedded, soft=soft)
                    return nontrivial
                if st == "err" or r != embedded:
                    rec.fail(f"C18/machine/enable-not-original/{dis}", "enable() does not restore the original hash after a sequence of operations", "history", sub, repr(r), embedded, soft=soft)
                    return nontrivial
                cur, enabled = r, True
                nontrivial = nontrivial or nops >= 2
            else:
                if not (st == "err" and isinstance(r, ValueError)):
                    rec.fail(f"C18/machine/enable-without-original/{dis}", "enable() with nothing embedded does not raise ValueError", "history", sub, repr(r), "ValueError", soft=soft)
                    return nontrivial
        elif op[0] == "verify":
            x = ["pw", "", cur, "wrong", cur[1:]][op[1] % 5]
            st, r = call(ctx.verify, x, cur)
            want = enabled and x == "pw"
            if marker_orig and not enabled and (st == "err" or r is not want):
                rec.fail(f"C18/still-enabled/{dis}/marker-prefixed-original", "a disabled marker-prefixed original still verifies (operation sequence)", "history", sub, repr(r), want, soft=soft)
                return nontrivial
            if st == "err" or r is not want:
                rec.fail(f"C18/machine/verify/{dis}", f"verify() is {r!r} for an account that is {'enabled' if enabled else 'disabled'}", "history", sub, repr(r), want, soft=soft)
                return nontrivial
        elif op[0] == "is_enabled":
            st, r = call(ctx.is_enabled, cur)
            if marker_orig and not enabled and (st == "err" or r is not enabled):
                rec.fail(f"C18/still-enabled/{dis}/marker-prefixed-original", "is_enabled() is True for a disabled marker-prefixed original (operation sequence)", "history", sub, repr(r), enabled, soft=soft)
                return nontrivial
            if st == "err" or r is not enabled:
                rec.fail(f"C18/machine/is_enabled/{dis}", "is_enabled() disagrees with the model", "history", sub, repr(r), enabled, soft=soft)
                return nontrivial
        elif op[0] == "rehash" and enabled:
            cur, embedded = make_original(spec, "hash", op[1])
    return nontrivial


@oracle(PROPERTY, "history")
def o_history(rec, case, soft=False):
    apply_ops(rec, case, soft=soft)


ORACLES = {"disable_enable": o_disable, "missing_hash": o_missing, "history": o_history}


def _specs():
    from hypothesis import strategies as st

    @st.composite
    def s(draw, allow_marker_schemes=True):
        dis = draw(st.sampled_from(["unix_disabled", "unix_disabled", "django_disabled"]))
        pool = OTHER if dis == "unix_disabled" else DJ_OTHER
        schemes = draw(st.lists(st.sampled_from(pool), min_size=1, max_size=4, unique=True))
        spec = {"schemes": schemes, "disabled": dis, "pos": draw(st.integers(0, len(schemes)))}
        if dis == "unix_disabled":
            m = draw(st.sampled_from([None, None, "!", "*", "!!", "*LK*"]))
            if m:
                spec["marker"] = m
        if not admissible(spec):
            spec["pos"] = len(schemes)  # disabled scheme last: always admissible
        pd = draw(st.sampled_from([None, None, "global", "category"]))
        if pd:
            spec["plaintext_default"] = pd
        if draw(st.integers(0, 3)) == 0:
            spec["user_scheme"] = True
        return spec

    return s()


def t_cases(rec, seed, tier):
    from hypothesis import strategies as st

    n = {"quick": 500, "thorough": 8000}[tier]
    cases = st.fixed_dictionaries({
        "spec": _specs(), "kind": st.sampled_from(["hash", "hash", "hash", "none", "empty", "bang-bare", "star-bare", "bang-orig", "star-orig"]),
        "i": st.integers(0, 7), "password": st.sampled_from(["pw", "", "pässword", "!", "*"]), "explicit_none": st.booleans(),
    })

    def body(case):
        rec.ev()
        orig = make_original(case["spec"], case["kind"], case["i"])[0]
        if case["kind"] in ("hash", "bang-orig", "star-orig"):
            rec.nt(tuple(case["spec"]["schemes"]), case["spec"]["disabled"], case["spec"]["pos"], case["spec"].get("marker"), case["kind"], case["i"] % 4)
        rec.count(f"disable:{case['spec']['disabled']}:{case['kind']}")
        if isinstance(orig, str) and orig[:1] in MARKERS and case["kind"] == "hash":
            rec.count("original-starts-with-marker")
        rec.sample(f"disable:{case['kind']}", case)
        o_disable(rec, case)

    hyp_campaign(rec, body, cases, n, seed, shrink_budget=15)
    # directed: what a shadow file can hold besides hashes
    from passlib.context import CryptContext
    from passlib.hash import unix_disabled

    for schemes in (["md5_crypt", "unix_disabled"], ["sha256_crypt", "des_crypt", "unix_disabled"]):
        ctx = CryptContext(schemes, **({"sha256_crypt__default_rounds": 1000} if "sha256_crypt" in schemes else {}))
        # an empty password field is a disabled account: recognised, never enabled, never verifying, not raising
        for empty in ("", b""):
            rec.ev()
            got = [call(unix_disabled.identify, empty), call(ctx.identify, empty), call(ctx.is_enabled, empty), call(ctx.verify, "pw", empty), call(ctx.verify, "", empty), call(ctx.verify_and_update, "pw", empty)]
            want = [("ok", True), ("ok", "unix_disabled"), ("ok", False), ("ok", False), ("ok", False), ("ok", (False, None))]
            if got != want:
                rec.fail("C18/empty-field-not-disabled", "an empty stored field is not treated as a disabled account", "disable_enable",
                         {"spec": {"schemes": schemes[:-1], "disabled": "unix_disabled", "pos": len(schemes) - 1}, "kind": "empty", "i": 0}, repr(got)[:300], repr(want)[:300], soft=True)
                break
        # a marker must itself be recognised as disabled, or disable() would hand out strings the context takes for something else
        for bad in ("LK", "x", "$!", " !", "a*"):
            rec.ev()
            st2, r = call(lambda: CryptContext(schemes, unix_disabled__marker=bad).disable())
            if not (st2 == "err" and isinstance(r, ValueError)):
                rec.fail("C18/invalid-marker-accepted", f"unix_disabled marker {bad!r} (not starting with '!' or '*') is accepted", "disable_enable",
                         {"spec": {"schemes": schemes[:-1], "disabled": "unix_disabled", "pos": len(schemes) - 1, "marker": bad}, "kind": "none", "i": 0}, repr(r), "ValueError", soft=True)
                break


def t_missing(rec, seed, tier):
    from hypothesis import strategies as st

    n = {"quick": 200, "thorough": 600}[tier]
    cases = st.fixed_dictionaries({"spec": _specs(), "password": st.sampled_from(["pw", "x" * 100, "pässword"]),
                                   "reconf": st.sampled_from([None, "load-replace", "load-other", "update-schemes", "load-string", "update-default"])})

    def body(case):
        rec.ev()
        rec.nt("missing", tuple(case["spec"]["schemes"]), case["spec"]["disabled"], case["password"], case["reconf"])
        rec.sample("missing-hash", case)
        o_missing(rec, case)

    hyp_campaign(rec, body, cases, n, seed, shrink_budget=10)


def make_machine(rec):
    from hypothesis import strategies as st
    from hypothesis.stateful import RuleBasedStateMachine, initialize, rule

    class DisableMachine(RuleBasedStateMachine):
        def __init__(self):
            super().__init__()
            self.hist = None

        @initialize(spec=_specs())
        def init(self, spec):
            if make_original(spec, "hash", 0)[0][:1] in MARKERS:
                spec = dict(spec, schemes=[s for s in spec["schemes"] if s != "mysql41"] or ["md5_crypt"])
            self.hist = {"spec": spec, "ops": []}

        def _step(self, op):
            if machine_guard(self) or self.hist is None:
                return
            self.hist["ops"].append(op)
            rec.ev()
            rec.count(f"machine:{op[0]}")
            try:
                nt = apply_ops(rec, self.hist)
            except Violation as v:
                machine_fail(self, v)
            if nt:
                rec.nt("hist", tuple(self.hist["spec"]["schemes"]), self.hist["spec"]["disabled"], tuple(map(tuple, self.hist["ops"])))

        @rule()
        def disable(self):
            self._step(["disable"])

        @rule()
        def enable(self):
            self._step(["enable"])

        @rule(k=st.integers(0, 4))
        def verify(self, k):
            self._step(["verify", k])

        @rule()
        def is_enabled(self):
            self._step(["is_enabled"])

        @rule(i=st.integers(0, 5))
        def rehash(self, i):
            self._step(["rehash", i])

        def teardown(self):
            if self.hist and len(self.hist["ops"]) > 3:
                rec.sample("history", {"spec": self.hist["spec"], "ops": self.hist["ops"][:12]})

    return DisableMachine


def t_machine(rec, seed, tier, shard):
    n, steps = {"quick": (120, 14), "thorough": (400, 30)}[tier]
    hyp_machine(rec, make_machine(rec), n, steps, seed + shard, shrink_budget=15)


def tasks(tier):
    ts = [{"name": "cases", "fn": "t_cases"}, {"name": "missing-hash", "fn": "t_missing"}]
    ts += [{"name": f"machine-{i}", "fn": "t_machine", "kw": {"shard": i}} for i in range(4 if tier == "quick" else 8)]
    return ts
