"""C19 -- first use from several threads behaves like first use from one."""

from __future__ import annotations

import importlib
import os
import itertools
import sys
import threading

from ..common import REPO, Recorder, Violation, call, hyp_campaign, oracle
from ..sched import Run, Stuck, count_steps

PROPERTY = "C19"
LEVEL = "exploration"
RULE = (
    "Scenarios, each built fresh per schedule (modules re-imported / objects re-created so the lazy state is pristine): "
    "(1) LazyCryptContext(schemes=..) with and without onload, first calls in {hash, verify, identify, needs_update, schemes, "
    "to_dict, default_scheme}; (2) fresh multi-backend hasher (md5_crypt, sha256_crypt, des_crypt, bcrypt, bcrypt_sha256) first "
    "hash/verify/get_backend; (3) fresh LazyBase64Engine first encode_bytes/decode_bytes/charmap/encode_int6; (4) unloaded registry "
    "name via getattr(passlib.hash, n) / get_crypt_handler(n); (5) fresh DES tables (des_encrypt_int_block) and lookup_hash cache; "
    "(6) steady state: concurrent hash/verify on shared loaded hashers and contexts. 2 threads (thorough: also 3). Schedules are "
    "owned by the harness (sys.settrace, every line of passlib code is a yield point): ALL schedules with <=1 preemption per "
    "initial order (quick) plus Hypothesis-generated schedules with <=4 preemptions and exhaustive <=2 preemptions inside the "
    "initialisation region (thorough); plus a free-running 32-thread barrier stress whose silence proves nothing. Oracle: every "
    "thread's outcome equals the single-thread outcome of the same call (value equality; hashes judged by verify), no exception in "
    "any thread, object usable afterwards. Non-trivial = a schedule with >=1 preemption that lands while a thread is inside an "
    "initialisation function (measured from the trace)."
)
ASSUMPTIONS = [
    "preemption bound and line granularity: a race needing more preemptions than explored, or a switch inside a C call, is out of reach",
    "liveness is only checked as 'no schedule got stuck for 5 s'",
    "a thread that reaches no yield point within 50 ms is treated as blocked on a real lock; this only affects which schedule is explored, never the verdict",
]
LEVEL_TEXT = (
    "Systematic schedule exploration with a harness that owns the interleaving: exhaustive over all one-preemption schedules of "
    "two first calls per scenario, generated multi-preemption schedules in the thorough tier, each judged against the "
    "single-thread outcome. No claim of absence of races beyond the preemption bound."
)
LEVEL_NOTE = "Trusted: CPython sys.settrace semantics, the 150-line scheduler in vpchk/sched.py, Hypothesis."
TECHNIQUE = "bounded-preemption systematic schedule exploration (harness-owned scheduler) + Hypothesis-generated schedules"
#: thorough tier: seed-dependent tasks are repeated under this many derived seeds (run.py); the listed task functions enumerate fixed domains
THOROUGH_REPS = 3
DETERMINISTIC_FNS = ('t_one_preemption',)

TRACKED = (REPO + "/passlib", REPO + "/libpass")
INIT_FUNCS = {"_lazy_init", "__getattribute__", "set_backend", "_set_backend", "_stub_requires_backend", "_set_calc_checksum_backend", "_load_backend_mixin",
              "_finalize_backend_mixin", "__init__", "load", "_load_tables", "get_crypt_handler", "__getattr__", "_lookup_hash", "lookup_hash", "get_backend",
              "_load_backend_os_crypt", "_load_backend_builtin", "__getitem__", "_load_wordset", "compile_hmac", "_get_hash_const", "_calc_checksum", "_calc_checksum_backend", "register_crypt_handler", "_init_constants"}


# ---- scenario construction ---------------------------------------------------------------------------
def _fresh_handler(name):
    """unload handler `name` and its module so class-level lazy state (backend selection) is pristine"""
    from passlib import registry

    mods = {"md5_crypt": "passlib.handlers.md5_crypt", "sha256_crypt": "passlib.handlers.sha2_crypt", "sha512_crypt": "passlib.handlers.sha2_crypt",
            "des_crypt": "passlib.handlers.des_crypt", "bsdi_crypt": "passlib.handlers.des_crypt", "bcrypt": "passlib.handlers.bcrypt",
            "bcrypt_sha256": "passlib.handlers.bcrypt", "sha1_crypt": "passlib.handlers.sha1_crypt", "phpass": "passlib.handlers.phpass",
            "pbkdf2_sha256": "passlib.handlers.pbkdf2", "hex_md5": "passlib.handlers.digests", "scrypt": "passlib.handlers.scrypt"}
    mod = mods[name]
    import passlib.hash

    for n in list(registry._handlers):
        h = registry._handlers[n]
        if getattr(h, "__module__", None) == mod or (hasattr(h, "wrapped") and getattr(h.wrapped, "__module__", None) == mod and False):
            registry._unload_handler_name(n, locations=False)
    sys.modules.pop(mod, None)
    return registry.get_crypt_handler(name) if False else None


CALLS = {
    "hash": lambda o: o.hash("pw"),
    "verify": lambda o: o.verify("pw", SAMPLE_MD5),
    "verify-wrong": lambda o: o.verify("nope", SAMPLE_MD5),
    "identify": lambda o: o.identify(SAMPLE_MD5),
    "needs_update": lambda o: o.needs_update(SAMPLE_MD5),
    "schemes": lambda o: o.schemes(),
    "to_dict": lambda o: o.to_dict(),
    "default_scheme": lambda o: o.default_scheme(),
}
SAMPLE_MD5 = "$1$abcdefgh$bCp3xcTGI3SnTUkrKEjxq0"  # md5_crypt of "pw"? verified in selftest


def selftest():
    from passlib.hash import md5_crypt

    global SAMPLE_MD5
    SAMPLE_MD5 = md5_crypt.using(salt="abcdefgh").hash("pw")


def scenario(spec):
    """-> (make_bodies() -> list of callables sharing ONE fresh object, judge(result, call name) -> canonical value)"""
    kind = spec["kind"]
    calls = spec["calls"]
    state = {}
    if kind == "lazyctx":
        def make():
            from passlib.context import LazyCryptContext

            kw = dict(schemes=["md5_crypt", "des_crypt"], md5_crypt__salt_size=8)
            kw.pop("md5_crypt__salt_size")
            if spec.get("onload"):
                def onload(**k):
                    k["default"] = "md5_crypt"
                    return k

                ctx = LazyCryptContext(onload=onload, schemes=["des_crypt", "md5_crypt"], deprecated=["des_crypt"])
            else:
                ctx = LazyCryptContext(schemes=["md5_crypt", "des_crypt"], deprecated=["des_crypt"])
            state["obj"] = ctx
            return [lambda c=c: CALLS[c](ctx) for c in calls]

        def canon(c, value, obj):
            if c == "hash":
                return obj.verify("pw", value) and obj.identify(value) == "md5_crypt"
            return value

        return make, canon, state
    if kind == "hasher":
        name = spec["name"]

        def make():
            _fresh_handler(name)
            import passlib.hash

            state["name"] = name

            def body(c):
                h = getattr(passlib.hash, name)
                if c == "hash":
                    return h.using(**HASHER_SETTINGS.get(name, {})).hash("pw")
                if c == "verify":
                    return h.verify("pw", HASHER_SAMPLES[name])
                if c == "verify-wrong":
                    return h.verify("nope", HASHER_SAMPLES[name])
                if c == "get_backend":
                    return h.get_backend()
                if c == "has_backend":
                    return h.has_backend()
                if c == "has_backend-absent":
                    # a failed probe (documented: returns False) must leave nothing behind that stops other threads
                    return h.has_backend("builtin") if os.environ.get("PASSLIB_BUILTIN_BCRYPT") != "enabled" else None
                raise KeyError(c)

            return [lambda c=c: body(c) for c in calls]

        def canon(c, value, obj):
            import passlib.hash

            if c == "hash":
                return getattr(passlib.hash, name).verify("pw", value)
            return value

        return make, canon, state
    if kind == "b64":
        def make():
            from passlib.utils.binary import HASH64_CHARS, LazyBase64Engine

            eng = LazyBase64Engine(HASH64_CHARS, big=spec.get("big", False))
            state["obj"] = eng
            fns = {
                "encode": lambda: eng.encode_bytes(b"\x01\x02\x03\x04"),
                "decode": lambda: eng.decode_bytes(b"abcdefgh"),
                "charmap": lambda: eng.charmap,
                "int6": lambda: eng.encode_int6(33),
                "big": lambda: eng.big,
                "repair": lambda: eng.check_repair_unused("ab"),
            }
            return [fns[c] for c in calls]

        return make, (lambda c, v, o: v), state
    if kind == "registry":
        name = spec["name"]

        def make():
            from passlib import registry

            registry._unload_handler_name(name, locations=False)
            import passlib.hash

            passlib.hash.__dict__.pop(name, None)
            fns = {
                "getattr": lambda: getattr(passlib.hash, name).name,
                "get": lambda: registry.get_crypt_handler(name).name,
                "get-default": lambda: getattr(registry.get_crypt_handler(name, None), "name", None),
                "identity": lambda: getattr(passlib.hash, name) is registry.get_crypt_handler(name),
            }
            return [fns[c] for c in calls]

        return make, (lambda c, v, o: v), state
    if kind == "des":
        def make():
            import passlib.crypto.des as d

            importlib.reload(d)
            fns = {
                "block": lambda: d.des_encrypt_int_block(0x133457799BBCDFF1, 0x0123456789ABCDEF),
                "salted": lambda: d.des_encrypt_int_block(0x0101010101010101, 0, 0x123, 3),
                "bytes": lambda: d.des_encrypt_block(b"\x13\x34\x57\x79\x9b\xbc\xdf\xf1", b"\x01\x23\x45\x67\x89\xab\xcd\xef"),
            }
            return [fns[c] for c in calls]

        return make, (lambda c, v, o: v), state
    if kind == "lookup":
        def make():
            import passlib.crypto.digest as dg

            dg._lookup_hash.clear_cache() if hasattr(getattr(dg, "_lookup_hash", None), "clear_cache") else None
            dg.lookup_hash.clear_cache() if hasattr(dg.lookup_hash, "clear_cache") else None
            fns = {
                "sha256": lambda: (dg.lookup_hash("sha256").name, dg.lookup_hash("sha256").digest_size),
                "md4": lambda: (dg.lookup_hash("md4").name, dg.lookup_hash("md4").digest_size),
                "alias": lambda: dg.lookup_hash("sha-256").name,
                "hmac": lambda: dg.compile_hmac("sha256", b"k")(b"m").hex(),
            }
            return [fns[c] for c in calls]

        return make, (lambda c, v, o: v), state
    if kind == "wordset":
        def make():
            import passlib.pwd as pwd

            importlib.reload(pwd)  # word lists not loaded yet

            def phrase(ws):
                out = pwd.genphrase(entropy=24, wordset=ws, sep=" ")
                words = set(pwd.default_wordsets[ws])
                return all(w in words for w in out.split(" ")) and len(out.split(" ")) >= 2

            fns = {"short": lambda: phrase("eff_short"), "short2": lambda: phrase("eff_short"), "long": lambda: phrase("eff_long"), "word": lambda: len(pwd.genword(entropy=40)) >= 6}
            return [fns[c] for c in calls]

        return make, (lambda c, v, o: v), state
    if kind == "hmac":
        def make():
            import passlib.crypto.digest as dg

            alg = spec["name"]
            f = dg.compile_hmac(alg, b"shared-key")  # ONE keyed function shared by all callers
            msgs = {"m1": b"message one", "m2": b"message two" * 9, "m3": b""}
            return [lambda c=c: f(msgs[c]).hex() for c in calls]

        return make, (lambda c, v, o: v), state
    if kind == "steady":
        def make():
            from passlib.context import CryptContext
            from passlib.hash import md5_crypt, sha256_crypt

            ctx = CryptContext(["sha256_crypt", "md5_crypt"], sha256_crypt__rounds=1000)
            md5_crypt.hash("warm")
            sha256_crypt.using(rounds=1000).hash("warm")
            ctx.hash("warm")
            state["obj"] = ctx

            def worker(i):
                pw = f"password-{i}"
                h1 = md5_crypt.hash(pw)
                h2 = ctx.hash(pw)
                return (md5_crypt.verify(pw, h1), md5_crypt.verify(f"password-{i + 1}", h1), ctx.verify(pw, h2), ctx.verify("x" + pw, h2), ctx.identify(h1), ctx.needs_update(h1))

            return [lambda i=i: worker(i) for i in range(len(calls))]

        return make, (lambda c, v, o: v), state
    raise KeyError(kind)


HASHER_SETTINGS = {"md5_crypt": {}, "sha256_crypt": {"rounds": 1000}, "des_crypt": {}, "bcrypt": {"rounds": 4}, "bcrypt_sha256": {"rounds": 4}, "sha1_crypt": {"rounds": 5}}
HASHER_SAMPLES = {}


def _init_samples():
    if HASHER_SAMPLES:
        return
    import passlib.hash

    for name, s in HASHER_SETTINGS.items():
        try:
            HASHER_SAMPLES[name] = getattr(passlib.hash, name).using(**s).hash("pw")
        except Exception:  # noqa: BLE001
            pass


def expected_outcomes(spec):
    """single-thread outcome of each call on its own fresh object"""
    out = []
    for c in spec["calls"]:
        make, canon, state = scenario(dict(spec, calls=[c]))
        bodies = make()
        st, v = call(bodies[0])
        if st == "err":
            # every scenario call succeeds single-threaded on a tree where the property can hold at all; anything else is a broken scenario
            raise RuntimeError(f"scenario {spec} call {c!r} fails single-threaded: {v!r}")
        out.append(("ok", canon(c, v, state.get("obj"))))
    return out


@oracle(PROPERTY, "schedule")
def o_schedule(rec: Recorder, case, soft=False):
    """case: {spec, order, preempt: {tid: [steps]}}"""
    _init_samples()
    spec = case["spec"]
    exp = case.get("_exp") or expected_outcomes(spec)
    make, canon, state = scenario(spec)
    bodies = make()
    pre = {int(k): v for k, v in case["preempt"].items()}
    r = Run(bodies, TRACKED, pre, order=case["order"], opcode_funcs=case.get("opcode_funcs", ()))
    label = f"{spec['kind']}/{spec.get('name', '')}".rstrip("/")
    try:
        results = r.run()
    except Stuck as e:
        rec.fail(f"C19/stuck/{label}", "a schedule made no progress for 5 s (deadlock?)", "schedule", {k: v for k, v in case.items() if not k.startswith("_")}, str(e), "completion", soft=soft)
        return None
    got = []
    for c, (st, v) in zip(spec["calls"], results):
        if st == "err":
            got.append(("err", type(v).__name__))
        else:
            try:
                got.append(("ok", canon(c, v, state.get("obj"))))
            except Exception as e:  # noqa: BLE001
                got.append(("err-after", type(e).__name__))
    if got != exp:
        errs = sorted({g[1] for g, e in zip(got, exp) if g != e and g[0] != "ok"})
        detail = "/".join(errs) if errs else "wrong-value"
        first_err = next((repr(v)[:200] for (st, v) in results if st == "err"), None)
        rec.fail(f"C19/{label}/{detail}", f"{label}: under this interleaving a thread's first call fails or returns another value than a single thread gets", "schedule",
                 {k: v for k, v in case.items() if not k.startswith("_")}, {"got": got, "error": first_err}, exp, soft=soft)
        return r
    # object usable afterwards
    if spec["kind"] in ("lazyctx",):
        obj = state["obj"]
        st, v = call(lambda: obj.verify("pw", obj.hash("pw")))
        if st == "err" or v is not True:
            rec.fail(f"C19/{label}/unusable-afterwards", "the lazily initialised object is unusable after concurrent first use", "schedule", {k: v for k, v in case.items() if not k.startswith("_")}, repr(v), True, soft=soft)
    return r


@oracle(PROPERTY, "stress")
def o_stress(rec: Recorder, case, soft=False):
    """free-running barrier stress (complement; silence proves nothing)"""
    spec, nthreads = case["spec"], case["threads"]
    _init_samples()
    exp = expected_outcomes(dict(spec, calls=[spec["calls"][0]]))[0]
    old = sys.getswitchinterval()
    sys.setswitchinterval(1e-6)
    try:
        for rep in range(case.get("reps", 5)):
            make, canon, state = scenario(dict(spec, calls=[spec["calls"][0]] * nthreads))
            bodies = make()
            bar = threading.Barrier(nthreads)
            res = [None] * nthreads

            def w(i):
                bar.wait()
                res[i] = call(bodies[i])

            ts = [threading.Thread(target=w, args=(i,)) for i in range(nthreads)]
            for t in ts:
                t.start()
            for t in ts:
                t.join(30)
            rec.ev(nthreads)
            if any(x is None for x in res):
                # a thread did not finish within 30 s: inconclusive here (the owned-schedule tasks report a stuck schedule as C19/stuck/...)
                rec.count("stress:unfinished-threads")
                return
            for st, v in res:
                g = ("err", type(v).__name__) if st == "err" else ("ok", canon(spec["calls"][0], v, state.get("obj")))
                if g != exp:
                    rec.fail(f"C19/stress/{spec['kind']}/{spec.get('name', '')}/{g[1] if g[0] == 'err' else 'wrong-value'}", "free-running threads: a first call failed or returned a wrong value", "stress", case, g, exp, soft=soft)
                    return
    finally:
        sys.setswitchinterval(old)


ORACLES = {"schedule": o_schedule, "stress": o_stress}


# ---- tasks ----------------------------------------------------------------------------------------------
def scenarios(tier):
    sc = [
        {"kind": "lazyctx", "calls": ["hash", "verify"]},
        {"kind": "lazyctx", "calls": ["identify", "needs_update"]},
        {"kind": "lazyctx", "calls": ["schemes", "to_dict"], "onload": True},
        {"kind": "lazyctx", "calls": ["verify", "default_scheme"], "onload": True},
        {"kind": "hasher", "name": "md5_crypt", "calls": ["hash", "verify"]},
        {"kind": "hasher", "name": "sha256_crypt", "calls": ["verify", "get_backend"]},
        {"kind": "hasher", "name": "des_crypt", "calls": ["hash", "verify-wrong"]},
        {"kind": "hasher", "name": "bcrypt", "calls": ["verify", "hash"]},
        {"kind": "hasher", "name": "bcrypt_sha256", "calls": ["verify", "verify"]},
        {"kind": "hasher", "name": "bcrypt", "calls": ["has_backend-absent", "hash"]},
        {"kind": "hasher", "name": "bcrypt_sha256", "calls": ["has_backend-absent", "verify"]},
        {"kind": "b64", "calls": ["encode", "decode"]},
        {"kind": "b64", "calls": ["charmap", "int6"], "big": True},
        {"kind": "registry", "name": "phpass", "calls": ["getattr", "get"]},
        {"kind": "registry", "name": "hex_md5", "calls": ["get", "identity"]},
        {"kind": "des", "calls": ["block", "salted"]},
        {"kind": "lookup", "calls": ["sha256", "hmac"]},
        {"kind": "steady", "calls": ["w", "w"]},
        {"kind": "wordset", "calls": ["short", "short2"]},
        {"kind": "wordset", "calls": ["short", "word"]},
        {"kind": "hmac", "name": "md4", "calls": ["m1", "m2"]},
        {"kind": "hmac", "name": "sha256", "calls": ["m1", "m3"]},
    ]
    if tier == "thorough":
        sc += [
            {"kind": "lazyctx", "calls": ["hash", "verify", "identify"]},
            {"kind": "hasher", "name": "sha1_crypt", "calls": ["hash", "verify"]},
            {"kind": "b64", "calls": ["encode", "decode", "repair"]},
            {"kind": "registry", "name": "pbkdf2_sha256", "calls": ["getattr", "get", "identity"]},
            {"kind": "steady", "calls": ["w", "w", "w"]},
        ]
    return sc


def t_one_preemption(rec, seed, tier, index):
    """all schedules with at most one preemption, for both initial orders"""
    _init_samples()
    spec = scenarios(tier)[index]
    exp = expected_outcomes(spec)
    n = len(spec["calls"])
    label = f"{spec['kind']}/{spec.get('name', '')}".rstrip("/")
    total = inside = 0
    stride = 1
    for order in itertools.permutations(range(n)):
        if n > 2 and order[0] > order[-1]:
            continue
        make, canon, state = scenario(spec)
        try:
            res, steps, r0 = count_steps(make, TRACKED, list(order))
        except Stuck:
            rec.fail(f"C19/stuck/{label}", "sequential run got stuck", "schedule", {"spec": spec, "order": list(order), "preempt": {}}, None, None, soft=True)
            continue
        first = order[0]
        nsteps = steps[first]
        stride = max(1, nsteps // (400 if tier == "quick" else 4000))
        case0 = {"spec": spec, "order": list(order), "preempt": {}, "_exp": exp}
        o_schedule(rec, case0, soft=True)
        total += 1
        for k in range(1, nsteps + 1, stride):
            case = {"spec": spec, "order": list(order), "preempt": {str(first): [k]}, "_exp": exp}
            r = o_schedule(rec, case, soft=True)
            total += 1
            if r is not None and r.preempted_inside and any(f in INIT_FUNCS for f in r.preempted_inside):
                inside += 1
                rec.nt(label, tuple(spec["calls"]), tuple(order), k)
            if total % 150 == 1:
                rec.sample(f"schedule:{label}", {"spec": spec, "order": list(order), "preempt": {str(first): [k]}, "preempted_inside": r.preempted_inside if r else None})
    rec.ev(total)
    rec.count(f"one-preemption:{label}", total)
    rec.count("preemption-inside-initialisation", inside)
    rec.subrecord(f"one-preemption:{label}:{'+'.join(spec['calls'])}", exhaustive=(stride == 1), schedules=total)


def t_hyp_schedules(rec, seed, tier, index):
    from hypothesis import strategies as st

    _init_samples()
    spec = scenarios(tier)[index]
    exp = expected_outcomes(spec)
    n = len(spec["calls"])
    label = f"{spec['kind']}/{spec.get('name', '')}".rstrip("/")
    make, canon, state = scenario(spec)
    try:
        res, steps, r0 = count_steps(make, TRACKED, list(range(n)))
    except Stuck as e:
        rec.fail(f"C19/stuck/{label}", "the threads run one after the other got stuck (a lock left held by a finished call?)", "schedule", {"spec": spec, "order": list(range(n)), "preempt": {}}, str(e), "completion", soft=True)
        return
    cnt = 40 if tier == "quick" else 600

    @st.composite
    def cases(draw):
        order = draw(st.permutations(range(n)))
        pre = {}
        for t in range(n):
            k = draw(st.integers(0, 2 if tier == "quick" else 3))
            top = max(1, min(steps[t], 200))
            pre[str(t)] = sorted(set(draw(st.lists(st.integers(1, top), min_size=k, max_size=k))))
        return {"spec": spec, "order": list(order), "preempt": pre}

    def body(case):
        rec.ev()
        case = dict(case, _exp=exp)
        r = o_schedule(rec, case)
        if r is not None and r.preempted_inside and any(f in INIT_FUNCS for f in r.preempted_inside):
            rec.nt(label, tuple(case["order"]), tuple(sorted((k, tuple(v)) for k, v in case["preempt"].items())))
        rec.count(f"hyp-schedule:{label}")

    hyp_campaign(rec, body, cases(), cnt, seed, shrink_budget=20)


def t_builtin_independent(rec, seed, tier):
    """pure-python primitives keep no state between calls: the same calls give the same values the second time and from several threads"""
    import bcrypt as pyca

    from passlib.crypto._blowfish import raw_bcrypt
    from passlib.crypto._md4 import md4

    salt = b"abcdefghijklmnopqrstuu"
    pws = [b"first", b"second", b"third"]
    ref = {p: pyca.hashpw(p, b"$2b$04$" + salt)[-31:] for p in pws}
    res = []

    def w(p):
        res.append((p, raw_bcrypt(p, "2b", salt, 4)))

    for p in pws + pws:
        w(p)
    ts = [threading.Thread(target=w, args=(p,)) for p in pws]
    for t in ts:
        t.start()
    for t in ts:
        t.join(120)
    rec.ev(len(res))
    rec.nt("builtin-bcrypt-independent", len(res))
    bad = [(p, v) for p, v in res if v != ref[p]]
    if bad:
        rec.fail("C19/builtin-bcrypt/not-independent", "repeated / concurrent pure-python bcrypt computations influence each other", "stress", {"spec": {"kind": "builtin-bcrypt", "calls": ["x"]}, "threads": 3}, repr(bad[0]), ref[bad[0][0]], soft=True)
    base = md4(b"x" * 64)
    a = base.copy()
    a.update(b"abc" * 30)
    b = base.copy()
    b.update(b"def")
    rec.ev(3)
    if (a.hexdigest(), b.hexdigest(), base.hexdigest()) != (md4(b"x" * 64 + b"abc" * 30).hexdigest(), md4(b"x" * 64 + b"def").hexdigest(), md4(b"x" * 64).hexdigest()):
        rec.fail("C19/md4/copies-not-independent", "copies of a builtin MD4 object share state", "stress", {"spec": {"kind": "md4-copy", "calls": ["x"]}, "threads": 1}, None, None, soft=True)


def t_stress(rec, seed, tier):
    for spec in scenarios("quick"):
        if spec["kind"] == "steady":
            continue
        case = {"spec": spec, "threads": 32 if tier == "thorough" else 16, "reps": 3 if tier == "quick" else 12}
        rec.sample("stress", case)
        o_stress(rec, case, soft=True)
    rec.count("stress-scenarios", len(scenarios("quick")) - 1)


def tasks(tier):
    ts = []
    for i, spec in enumerate(scenarios(tier)):
        ts.append({"name": f"one-preempt-{i:02d}-{spec['kind']}-{spec.get('name', '')}", "fn": "t_one_preemption", "kw": {"index": i}})
        ts.append({"name": f"hyp-sched-{i:02d}-{spec['kind']}-{spec.get('name', '')}", "fn": "t_hyp_schedules", "kw": {"index": i}})
    ts.append({"name": "stress", "fn": "t_stress"})
    ts.append({"name": "builtin-independent", "fn": "t_builtin_independent"})
    return ts
