"""C11 -- the built-in cryptographic primitives equal their standards."""

from __future__ import annotations

import hashlib
import hmac as std_hmac
import itertools

from ..common import Recorder, call, hyp_campaign, oracle
from ..refs import des as rdes
from ..refs import formats as RF
from ..refs import kdf
from ..refs.md4 import md4 as ref_md4

PROPERTY = "C11"
LEVEL = "exploration"
RULE = (
    "Differential testing of each pure-Python primitive against an independent implementation: DES (textbook FIPS-46 with the "
    "crypt(3) salt swap; all 4096 12-bit salts exhaustively, sampled 24-bit salts, rounds 1..30, unit-vector keys/blocks, 7<->8 byte "
    "key expansion), bcrypt core (pyca bcrypt; base and unrolled Blowfish engines), MD4 (own RFC 1320; every length 0..300 and "
    "every split into <=3 update() calls for lengths around the block size, copy/digest laws), scrypt builtin (hashlib.scrypt and "
    "own RFC 7914; n 2..256/4096, r 1..8, p 1..4, keylen 1..130; validate() on an exhaustive small grid), HMAC (stdlib hmac; key "
    "lengths 0..2*block+2 for every digest), PBKDF1/2 (own loops), SASLprep (own RFC 4013 walk; every Unicode code point singly, "
    "exhaustive, plus generated bidi/NFKC combinations). Non-trivial = input longer than one block / multi-call split / "
    "non-zero salt / code point that is mapped, normalised or prohibited; distinct by fingerprint."
)
ASSUMPTIONS = [
    "vpchk/refs/des.py, md4.py, kdf.py reproduce FIPS/RFC vectors (checked at start-up)",
    "CPython hashlib/hmac/stringprep/unicodedata and pyca bcrypt are correct",
]
LEVEL_TEXT = (
    "Each primitive is compared with an independently written implementation (and a third party where one exists) over generated "
    "inputs aimed at block boundaries, with complete enumeration of the small finite sub-domains (all 12-bit DES salts, all MD4 "
    "lengths 0..300, all 1,114,112 code points for SASLprep, the validate() grid). Evidence of agreement on the explored inputs."
)
LEVEL_NOTE = "Trusted: vpchk/refs (self-tested on published vectors), CPython stdlib, pyca bcrypt, Hypothesis."
TECHNIQUE = "Hypothesis differential testing + exhaustive enumeration against independent reference implementations"
#: thorough tier: seed-dependent tasks are repeated under this many derived seeds (run.py); the listed task functions enumerate fixed domains
THOROUGH_REPS = 2
DETERMINISTIC_FNS = ('t_des_salts', 't_md4_lengths', 't_sasl_singles', 't_des_keys', 't_scrypt_validate')

M64 = (1 << 64) - 1


# ---- DES -----------------------------------------------------------------------------------
@oracle(PROPERTY, "des")
def o_des(rec, case, soft=False):
    from passlib.crypto import des as pd

    key, block, salt, rounds = case["key"], case["block"], case["salt"], case["rounds"]
    exp = rdes.des_encrypt_int(key, block, salt, rounds)
    got = pd.des_encrypt_int_block(key, block, salt, rounds)
    if got != exp:
        rec.fail("C11/des/int-block", "des_encrypt_int_block differs from textbook DES", "des", case, hex(got), hex(exp), soft=soft)
        return
    if case.get("bytes_api", True):
        kb, bb = key.to_bytes(8, "big"), block.to_bytes(8, "big")
        gb = pd.des_encrypt_block(kb, bb, salt, rounds)
        if gb != exp.to_bytes(8, "big"):
            rec.fail("C11/des/bytes-block", "des_encrypt_block (bytes API) differs from the int API / textbook DES", "des", case, gb.hex(), hex(exp), soft=soft)
        # parity bits are ignored; 7-byte keys are expanded
        k7 = pd.shrink_des_key(kb)
        if len(k7) != 7 or pd.des_encrypt_block(k7, bb, salt, rounds) != gb:
            rec.fail("C11/des/key7", "7-byte key does not give the same result as its 8-byte expansion", "des", case, None, None, soft=soft)
        flipped = bytes(b ^ 1 for b in kb)
        if pd.des_encrypt_block(flipped, bb, salt, rounds) != gb:
            rec.fail("C11/des/parity", "DES result depends on key parity bits", "des", case, None, None, soft=soft)


@oracle(PROPERTY, "des_key")
def o_des_key(rec, case, soft=False):
    from passlib.crypto import des as pd

    k7 = case["key7"]
    k8 = pd.expand_des_key(k7)
    exp = rdes.expand_key(k7)
    if k8 != exp:
        rec.fail("C11/des/expand", "expand_des_key differs from reference (7 bits per byte, parity 0)", "des_key", case, k8.hex(), exp.hex(), soft=soft)
        return
    if pd.shrink_des_key(k8) != k7:
        rec.fail("C11/des/shrink", "shrink_des_key(expand_des_key(k)) != k", "des_key", case, pd.shrink_des_key(k8).hex(), k7.hex(), soft=soft)
    vi = int.from_bytes(k7, "big")
    if pd.expand_des_key(vi) != int.from_bytes(exp, "big") or pd.shrink_des_key(int.from_bytes(exp, "big")) != vi:
        rec.fail("C11/des/int-key", "integer form of expand/shrink disagrees with the bytes form", "des_key", case, None, None, soft=soft)
    with_parity = bytes(b | (i & 1) for i, b in enumerate(k8))
    if pd.shrink_des_key(with_parity) != k7:
        rec.fail("C11/des/shrink-parity", "shrink_des_key is not indifferent to parity bits", "des_key", case, None, None, soft=soft)


# ---- bcrypt core ---------------------------------------------------------------------------
@oracle(PROPERTY, "bcrypt_core")
def o_bcrypt(rec, case, soft=False):
    import passlib.crypto._blowfish as pbf

    if case.get("engine") == "base":
        from passlib.crypto._blowfish import base

        pbf.BlowfishEngine = base.BlowfishEngine
    elif case.get("engine") == "unrolled":
        from passlib.crypto._blowfish import unrolled

        pbf.BlowfishEngine = unrolled.BlowfishEngine
    pw, ident, salt, cost = case["password"], case["ident"], case["salt"], case["cost"]
    exp = RF._bcrypt_raw(pw, "$" + ident + "$", cost, salt)
    if exp is None:
        rec.count("bcrypt_ref_not_applicable")
        return
    got = pbf.raw_bcrypt(pw, ident, salt.encode("ascii"), cost)
    if got != exp.encode("ascii"):
        rec.fail(f"C11/bcrypt-core/{case.get('engine', 'default')}", "raw_bcrypt differs from the bcrypt library", "bcrypt_core", case, got, exp, soft=soft)


# ---- MD4 -------------------------------------------------------------------------------------
@oracle(PROPERTY, "md4")
def o_md4(rec, case, soft=False):
    from passlib.crypto._md4 import md4

    msg, cuts = case["msg"], case.get("cuts", [])
    exp = ref_md4(msg)
    one = md4(msg).digest()
    if one != exp:
        rec.fail("C11/md4/oneshot", "md4(msg).digest() differs from RFC 1320 reference", "md4", case, one.hex(), exp.hex(), soft=soft)
        return
    h = md4()
    prev = 0
    copies = []
    for c in list(cuts) + [len(msg)]:
        h.update(msg[prev:c])
        copies.append((c, h.copy()))
        prev = c
    d1 = h.digest()
    d2 = h.digest()
    if d1 != exp or d2 != exp or h.hexdigest() != exp.hex():
        rec.fail("C11/md4/incremental", "incremental md4 differs from one-shot (or digest() is not idempotent)", "md4", case, d1.hex(), exp.hex(), soft=soft)
        return
    for c, cp in copies:
        cp.update(msg[c:])
        if cp.digest() != exp:
            rec.fail("C11/md4/copy", "md4.copy() mid-stream then finishing differs from one-shot", "md4", case, cp.digest().hex(), exp.hex(), soft=soft)
            return
    # digest() must not consume: continue updating after digest()
    h2 = md4(msg[: len(msg) // 2])
    h2.digest()
    h2.update(msg[len(msg) // 2 :])
    if h2.digest() != exp:
        rec.fail("C11/md4/digest-consumes", "update() after digest() gives a wrong result", "md4", case, h2.digest().hex(), exp.hex(), soft=soft)


# ---- scrypt ----------------------------------------------------------------------------------
@oracle(PROPERTY, "scrypt")
def o_scrypt(rec, case, soft=False):
    from passlib.crypto.scrypt._builtin import ScryptEngine

    pw, salt, n, r, p, klen = case["secret"], case["salt"], case["n"], case["r"], case["p"], case["keylen"]
    got = ScryptEngine.execute(pw, salt, n, r, p, klen)
    try:
        exp = hashlib.scrypt(pw, salt=salt, n=n, r=r, p=p, dklen=klen, maxmem=2**30)
    except ValueError:
        exp = None
    own = kdf.scrypt(pw, salt, n, r, p, klen) if n * r * p <= 512 else None
    if exp is not None and own is not None and exp != own:
        rec.count("reference_dispute")
        return
    exp = exp if exp is not None else own
    if exp is None:
        rec.count("scrypt_ref_not_applicable")
        return
    if got != exp:
        rec.fail("C11/scrypt/builtin", "builtin scrypt differs from hashlib.scrypt / RFC 7914 reference", "scrypt", case, got.hex(), exp.hex(), soft=soft)


@oracle(PROPERTY, "scrypt_validate")
def o_scrypt_validate(rec, case, soft=False):
    from passlib.crypto import scrypt as ps

    n, r, p = case["n"], case["r"], case["p"]
    valid = r >= 1 and p >= 1 and r * p < 2**30 and n >= 2 and (n & (n - 1)) == 0
    st, res = call(ps.validate, n, r, p)
    if valid and not (st == "ok" and res):
        rec.fail("C11/scrypt/validate-rejects", "validate() refuses valid (n,r,p)", "scrypt_validate", case, repr(res), True, soft=soft)
    if not valid and not (st == "err" and isinstance(res, ValueError)):
        rec.fail("C11/scrypt/validate-accepts", "validate() accepts invalid (n,r,p) or raises the wrong error", "scrypt_validate", case, repr(res), "ValueError", soft=soft)


# ---- HMAC / PBKDF ------------------------------------------------------------------------------
DIGESTS = ["md5", "sha1", "sha224", "sha256", "sha384", "sha512", "md4"]


def _std_hmac(name, key, msg):
    if name == "md4":
        return kdf.hmac("md4", key, msg)
    return std_hmac.new(key, msg, name).digest()


@oracle(PROPERTY, "hmac")
def o_hmac(rec, case, soft=False):
    from passlib.crypto.digest import compile_hmac

    name, key, parts = case["digest"], case["key"], case["parts"]
    msg = b"".join(parts)
    exp = _std_hmac(name, key, msg)
    own = kdf.hmac(name, key, msg)
    if own != exp:
        rec.count("reference_dispute")
        return
    f = compile_hmac(name, key)
    got = f(msg)
    if got != exp:
        rec.fail(f"C11/hmac/oneshot/{name}", "compile_hmac(...)(msg) differs from HMAC", "hmac", case, got.hex(), exp.hex(), soft=soft)
        return
    if f(msg) != exp:
        rec.fail(f"C11/hmac/reuse/{name}", "compiled hmac function gives a different result on reuse", "hmac", case, None, None, soft=soft)
    update, finalize = compile_hmac(name, key, multipart=True)()
    for part in parts:
        update(part)
    g1, g2 = finalize(), finalize()
    if g1 != exp or g2 != exp:
        rec.fail(f"C11/hmac/multipart/{name}", "multipart hmac differs from one-shot (or finalize is not repeatable)", "hmac", case, g1.hex(), exp.hex(), soft=soft)
    if case.get("str_key"):
        try:
            ks = key.decode("utf-8")
        except UnicodeDecodeError:
            return
        if compile_hmac(name, ks)(msg) != exp:
            rec.fail(f"C11/hmac/str-key/{name}", "str key is not treated as its UTF-8 bytes", "hmac", case, None, None, soft=soft)


@oracle(PROPERTY, "pbkdf")
def o_pbkdf(rec, case, soft=False):
    from passlib.crypto.digest import pbkdf1, pbkdf2_hmac

    kind, name, secret, salt, rounds, klen = case["kind"], case["digest"], case["secret"], case["salt"], case["rounds"], case["keylen"]
    if kind == "pbkdf1":
        dsize = kdf.hsize(name)[0]
        if klen is not None and klen > dsize:
            st, r = call(pbkdf1, name, secret, salt, rounds, klen)
            if not (st == "err" and isinstance(r, ValueError)):
                rec.fail("C11/pbkdf1/overlong", "pbkdf1 with keylen > digest size did not raise ValueError", "pbkdf", case, repr(r), "ValueError", soft=soft)
            return
        exp = kdf.pbkdf1(name, secret, salt, rounds, klen)
        got = pbkdf1(name, secret, salt, rounds, klen)
    else:
        exp = kdf.pbkdf2(name, secret, salt, rounds, klen)
        st, got = call(pbkdf2_hmac, name, secret, salt, rounds, klen)
        if st == "err":
            if name == "md4" and isinstance(got, (ValueError, TypeError)):
                rec.count("pbkdf2_md4_unsupported_by_host")
                return
            raise got
    if got != exp:
        rec.fail(f"C11/{kind}/{name}", f"{kind} differs from RFC 2898 reference", "pbkdf", case, got.hex(), exp.hex(), soft=soft)
        return
    if case.get("as_str"):
        try:
            s1, s2 = secret.decode("utf-8"), salt.decode("utf-8")
        except UnicodeDecodeError:
            return
        fn = pbkdf1 if kind == "pbkdf1" else pbkdf2_hmac
        if fn(name, s1, s2, rounds, klen) != exp:
            rec.fail(f"C11/{kind}/str-args", "str secret/salt not treated as UTF-8 bytes", "pbkdf", case, None, None, soft=soft)


# ---- SASLprep -------------------------------------------------------------------------------------
def _sasl_both(text):
    from passlib.utils import saslprep

    try:
        exp = ("ok", RF.saslprep(text))
    except ValueError:
        exp = ("err", None)
    st, r = call(saslprep, text)
    if st == "err":
        # only ValueError is the documented refusal; anything else (an internal assertion, ...) is a wrong answer, not a harness problem
        got = ("err", None) if isinstance(r, ValueError) else ("internal-error", type(r).__name__)
    else:
        got = ("ok", r)
    return got, exp


@oracle(PROPERTY, "saslprep")
def o_saslprep(rec, case, soft=False):
    text = case["text"]
    got, exp = _sasl_both(text)
    if got != exp:
        rec.fail("C11/saslprep", "saslprep differs from the RFC 4013 reference walk", "saslprep", case, got, exp, soft=soft)


ORACLES = {
    "des": o_des,
    "des_key": o_des_key,
    "bcrypt_core": o_bcrypt,
    "md4": o_md4,
    "scrypt": o_scrypt,
    "scrypt_validate": o_scrypt_validate,
    "hmac": o_hmac,
    "pbkdf": o_pbkdf,
    "saslprep": o_saslprep,
}


# ---- tasks ---------------------------------------------------------------------------------------
def t_des_hyp(rec, seed, tier):
    from hypothesis import strategies as st

    n = 1500 if tier == "quick" else 15000
    u64 = st.one_of(st.integers(0, M64), st.integers(0, 63).map(lambda k: 1 << k), st.sampled_from([0, M64, 0x0101010101010101, 0xFEFEFEFEFEFEFEFE]))
    salt = st.one_of(st.just(0), st.integers(0, 4095), st.integers(0, (1 << 24) - 1), st.integers(0, 23).map(lambda k: 1 << k))
    rounds = st.one_of(st.integers(1, 30), st.sampled_from([1, 2, 5, 20, 25]))
    case = st.fixed_dictionaries({"key": u64, "block": u64, "salt": salt, "rounds": rounds})

    def body(c):
        rec.ev()
        rec.count("des:salted" if c["salt"] else "des:plain")
        if c["salt"] or c["rounds"] > 1:
            rec.nt("des", c["key"], c["block"], c["salt"], c["rounds"])
        rec.sample("des", c)
        o_des(rec, c)

    hyp_campaign(rec, body, case, n, seed)


def t_des_salts(rec, seed, tier, lo, hi, bits):
    n = 0
    for s in range(lo, hi):
        salt = s if bits == 12 else ((s * 2654435761) & 0xFFFFFF)
        c = {"key": (0x0123456789ABCDEF * (s + 1)) & M64, "block": (s * 0x9E3779B97F4A7C15) & M64, "salt": salt, "rounds": 1 + s % 3, "bytes_api": s % 16 == 0}
        o_des(rec, c, soft=True)
        n += 1
    if lo == 0:
        # both ends of the salt range of either width, and single-bit salts
        for salt in [0, 1, 0xFFF, 0x800000, 0xFFFFFE, 0xFFFFFF] + [1 << k for k in range(24)]:
            if bits == 12 and salt > 0xFFF:
                continue
            o_des(rec, {"key": 0x0123456789ABCDEF, "block": 0xFEDCBA9876543210, "salt": salt, "rounds": 2, "bytes_api": True}, soft=True)
            n += 1
    rec.ev(n)
    rec.nt_bulk(n)
    rec.count(f"des:salts{bits}", n)
    rec.subrecord(f"des-salts-{bits}bit", exhaustive=(bits == 12), range=[lo, hi])
    rec.sample("des-salts", {"bits": bits, "range": [lo, hi - 1]})


def t_des_keys(rec, seed, tier):
    from hypothesis import strategies as st

    n = 2000 if tier == "quick" else 20000
    keys = st.one_of(st.binary(min_size=7, max_size=7), st.integers(0, 55).map(lambda k: (1 << k).to_bytes(7, "big")), st.sampled_from([b"\0" * 7, b"\xff" * 7]))

    def body(k):
        rec.ev()
        rec.nt("deskey", k)
        rec.sample("des_key", {"key7": k})
        o_des_key(rec, {"key7": k})

    hyp_campaign(rec, body, keys, n, seed)


def t_bcrypt(rec, seed, tier, engine, shard):
    from hypothesis import strategies as st

    from ..gens import strategies as S
    from ..gens.table import T

    n = 8 if tier == "quick" else 60
    lens = st.one_of(st.sampled_from([0, 1, 17, 55, 56, 71, 72, 73, 80]), st.integers(0, 80))

    @st.composite
    def cases(draw):
        ln = draw(lens)
        pw = bytes(draw(st.lists(st.integers(1, 255), min_size=ln, max_size=ln)))
        return {
            "engine": engine,
            "password": pw,
            "ident": draw(st.sampled_from(["2a", "2b", "2y", "2"])),
            "salt": draw(S.salts(("bc64", 22, 22))),
            "cost": draw(st.sampled_from([4, 4, 4, 5] if tier == "thorough" else [4])),
        }

    if shard == 0:
        # directed: the empty key under every ident (the key schedule has nothing to cycle), and one-byte keys
        for ident in ("2", "2a", "2b", "2y"):
            for pw in (b"", b"a", b"\xff"):
                rec.ev()
                o_bcrypt(rec, {"engine": engine, "password": pw, "ident": ident, "salt": "abcdefghijklmnopqrstuu", "cost": 4}, soft=True)

    def body(c):
        rec.ev()
        rec.count(f"bcrypt:{engine}:{c['ident']}")
        if len(c["password"]) > 1:
            rec.nt("bcrypt", engine, c["password"], c["ident"], c["salt"], c["cost"])
        rec.sample(f"bcrypt:{engine}", c)
        o_bcrypt(rec, c)

    hyp_campaign(rec, body, cases(), n, seed + shard, shrink_budget=15)


def t_md4_lengths(rec, seed, tier, lo, hi):
    n = 0
    for ln in range(lo, hi):
        msg = bytes((ln * 31 + i * 17) & 255 for i in range(ln))
        o_md4(rec, {"msg": msg, "cuts": [ln // 3, ln // 2]}, soft=True)
        n += 1
    rec.ev(n)
    rec.nt_bulk(n)
    rec.subrecord("md4-lengths", exhaustive=True, upto=hi - 1)
    rec.sample("md4-length", {"lengths": [lo, hi - 1]})


def t_md4_splits(rec, seed, tier):
    """every split into <=3 update() calls for messages around the block size"""
    n = 0
    lens = [0, 1, 55, 56, 57, 63, 64, 65, 119, 120, 121, 127, 128, 129] if tier == "quick" else list(range(0, 140))
    for ln in lens:
        msg = bytes((ln + i * 29) & 255 for i in range(ln))
        for a, b in itertools.combinations_with_replacement(range(ln + 1), 2):
            if tier == "quick" and ln > 70 and (a % 7 or b % 5):
                continue
            o_md4(rec, {"msg": msg, "cuts": [a, b]}, soft=True)
            n += 1
    rec.ev(n)
    rec.nt_bulk(n)
    rec.sample("md4-splits", {"lengths": lens[:6], "note": "all (a<=b) cut pairs"})


def t_md4_hyp(rec, seed, tier):
    from hypothesis import strategies as st

    n = 800 if tier == "quick" else 8000

    @st.composite
    def cases(draw):
        msg = draw(st.binary(min_size=0, max_size=draw(st.sampled_from([70, 200, 600, 2000]))))
        k = draw(st.integers(0, 4))
        cuts = sorted(draw(st.lists(st.integers(0, len(msg)), min_size=k, max_size=k)))
        return {"msg": msg, "cuts": cuts}

    def body(c):
        rec.ev()
        if len(c["msg"]) > 64 or len(c["cuts"]) > 1:
            rec.nt("md4", c["msg"], c["cuts"])
        rec.count(f"md4:cuts={len(c['cuts'])}")
        if 2 < len(c["msg"]) < 40:
            rec.sample("md4", c)
        o_md4(rec, c)

    hyp_campaign(rec, body, cases(), n, seed)


def t_scrypt(rec, seed, tier, shard):
    from hypothesis import strategies as st

    n = 25 if tier == "quick" else 150
    maxln = 6 if tier == "quick" else 9

    @st.composite
    def cases(draw):
        r = draw(st.sampled_from([1, 1, 2, 3, 4, 8]))
        p = draw(st.sampled_from([1, 1, 2, 3, 4]))
        ln = draw(st.integers(1, maxln))
        while (1 << ln) * r * p > (1024 if tier == "quick" else 16384):
            ln -= 1
        return {
            "secret": draw(st.binary(max_size=40)),
            "salt": draw(st.binary(max_size=40)),
            "n": 1 << max(1, ln),
            "r": r,
            "p": p,
            "keylen": draw(st.one_of(st.integers(1, 130), st.sampled_from([1, 31, 32, 33, 63, 64, 65, 128, 130]))),
        }

    def body(c):
        rec.ev()
        rec.count(f"scrypt:r={c['r']},p={c['p']}")
        if c["n"] > 2 or c["r"] > 1:
            rec.nt("scrypt", sorted(c.items()))
        rec.sample("scrypt", c)
        o_scrypt(rec, c)

    hyp_campaign(rec, body, cases(), n, seed + shard, shrink_budget=15)


def t_scrypt_validate(rec, seed, tier):
    n = 0
    ns = [-4, -1, 0, 1, 2, 3, 4, 5, 6, 7, 8, 12, 16, 1023, 1024, 1025, 1 << 20, (1 << 20) + 1, 1 << 31, 1 << 32]
    rs = [-1, 0, 1, 2, 8, 1 << 15, (1 << 30) - 1, 1 << 30]
    ps = [-1, 0, 1, 2, 3, 1 << 15, (1 << 30) - 1, 1 << 30]
    for nn, r, p in itertools.product(ns, rs, ps):
        o_scrypt_validate(rec, {"n": nn, "r": r, "p": p}, soft=True)
        n += 1
    rec.ev(n)
    rec.nt_bulk(n)
    rec.subrecord("scrypt-validate-grid", exhaustive=True, size=n)
    rec.sample("scrypt_validate", {"n": ns, "r": rs, "p": ps})


def t_hmac(rec, seed, tier, digest):
    n = 0
    dsize, bsize = kdf.hsize(digest)
    for klen in range(0, 2 * bsize + 3):
        key = bytes((klen * 7 + i * 13) & 255 for i in range(klen))
        parts = [b"abc" * (klen % 5), bytes([klen & 255]) * (klen % 70), b"tail"]
        o_hmac(rec, {"digest": digest, "key": key, "parts": parts, "str_key": klen % 4 == 0}, soft=True)
        n += 1
    rec.ev(n)
    rec.nt_bulk(n)
    rec.subrecord(f"hmac-keylens:{digest}", exhaustive=True, upto=2 * bsize + 2)
    rec.sample("hmac", {"digest": digest, "key_lengths": [0, 2 * bsize + 2]})


def t_kdf_hyp(rec, seed, tier):
    from hypothesis import strategies as st

    n = 1200 if tier == "quick" else 12000

    @st.composite
    def cases(draw):
        kind = draw(st.sampled_from(["pbkdf1", "pbkdf2", "pbkdf2", "hmac"]))
        name = draw(st.sampled_from(DIGESTS))
        dsize, bsize = kdf.hsize(name)
        if kind == "hmac":
            klen = draw(st.one_of(st.integers(0, 2 * bsize + 2), st.sampled_from([0, bsize - 1, bsize, bsize + 1])))
            return {
                "kind": kind,
                "digest": name,
                "key": draw(st.binary(min_size=klen, max_size=klen)),
                "parts": draw(st.lists(st.binary(max_size=150), max_size=4)),
                "str_key": draw(st.booleans()),
            }
        if kind == "pbkdf1":
            klen = draw(st.one_of(st.none(), st.integers(0, dsize + 2)))
        else:
            klen = draw(st.one_of(st.none(), st.integers(1, 3 * dsize + 1), st.sampled_from([1, dsize - 1, dsize, dsize + 1, 2 * dsize, 2 * dsize + 1])))
        return {
            "kind": kind,
            "digest": name,
            "secret": draw(st.one_of(st.binary(max_size=40), st.binary(min_size=bsize - 1, max_size=bsize + 2))),
            "salt": draw(st.binary(max_size=40)),
            "rounds": draw(st.one_of(st.integers(1, 50), st.sampled_from([1, 2, 3]))),
            "keylen": klen,
            "as_str": draw(st.booleans()),
        }

    def body(c):
        rec.ev()
        rec.count(f"{c['kind']}:{c['digest']}")
        rec.nt(sorted((k, repr(v)) for k, v in c.items()))
        rec.sample(c["kind"], c)
        if c["kind"] == "hmac":
            o_hmac(rec, c)
        else:
            o_pbkdf(rec, c)

    hyp_campaign(rec, body, cases(), n, seed)


def t_sasl_singles(rec, seed, tier, lo, hi):
    """every code point in [lo,hi) alone, and embedded between two ASCII letters"""
    n = nt = 0
    for cp in range(lo, hi):
        if 0xD800 <= cp <= 0xDFFF:
            continue
        ch = chr(cp)
        for text in (ch, "a" + ch + "b"):
            got, exp = _sasl_both(text)
            n += 1
            if got != exp:
                rec.fail(f"C11/saslprep/single", "saslprep differs from the RFC 4013 reference on a single code point", "saslprep", {"text": text}, got, exp, soft=True)
            if exp != ("ok", text):
                nt += 1
    rec.ev(n)
    rec.nt_bulk(nt)
    rec.count("saslprep:singles", n)
    rec.subrecord("saslprep-singles", exhaustive=True)
    rec.sample("saslprep-single", {"range": [hex(lo), hex(hi - 1)], "nontrivial": nt})


def t_sasl_hyp(rec, seed, tier):
    from hypothesis import strategies as st

    n = 4000 if tier == "quick" else 60000
    special = st.sampled_from(
        list("aZ 0") + ["­", "​", " ", " ", "　", "א", "ا", "ب", "۰", "٠", "Ⅸ", "ª", "ﬁ",
                        "Å", "́", "‎", "‏", "‪", "", "�", "﷐", "\U000e0001", "ȡ", "\u0000", "\u007f", "۝",
                        "܏", "᠎", " ", "⿰", "̀", "\U0001d173", "﻿", "᠆", "͏", "⁠", "︀", ";"]
    )
    chars = st.one_of(special, st.characters(blacklist_categories=("Cs",)))
    texts = st.lists(chars, min_size=0, max_size=6).map("".join)

    def body(t):
        rec.ev()
        if len(t) >= 2:
            rec.nt("sasl", t)
        rec.count(f"saslprep:len={min(len(t), 4)}")
        rec.sample("saslprep", {"text": t})
        o_saslprep(rec, {"text": t})

    hyp_campaign(rec, body, texts, n, seed)


def tasks(tier):
    ts = [{"name": "des-hyp", "fn": "t_des_hyp"}, {"name": "des-keys", "fn": "t_des_keys"}]
    for lo in range(0, 4096, 512):
        ts.append({"name": f"des-salts12-{lo:04d}", "fn": "t_des_salts", "kw": {"lo": lo, "hi": lo + 512, "bits": 12}})
    n24 = 2048 if tier == "quick" else 65536
    for lo in range(0, n24, n24 // 4):
        ts.append({"name": f"des-salts24-{lo:05d}", "fn": "t_des_salts", "kw": {"lo": lo, "hi": lo + n24 // 4, "bits": 24}})
    try:
        import bcrypt  # noqa: F401

        for eng in ("unrolled", "base"):
            for sh in range(4 if tier == "quick" else 6):
                ts.append({"name": f"bcrypt-{eng}-{sh}", "fn": "t_bcrypt", "kw": {"engine": eng, "shard": sh}})
    except ImportError:
        pass
    top = 301 if tier == "quick" else 2001
    step = 101 if tier == "quick" else 251
    for lo in range(0, top, step):
        ts.append({"name": f"md4-len-{lo:04d}", "fn": "t_md4_lengths", "kw": {"lo": lo, "hi": min(top, lo + step)}})
    ts += [{"name": "md4-splits", "fn": "t_md4_splits"}, {"name": "md4-hyp", "fn": "t_md4_hyp"}]
    for sh in range(4 if tier == "quick" else 8):
        ts.append({"name": f"scrypt-{sh}", "fn": "t_scrypt", "kw": {"shard": sh}})
    ts.append({"name": "scrypt-validate", "fn": "t_scrypt_validate"})
    for d in DIGESTS:
        ts.append({"name": f"hmac-{d}", "fn": "t_hmac", "kw": {"digest": d}})
    ts.append({"name": "kdf-hyp", "fn": "t_kdf_hyp"})
    for lo in range(0, 0x110000, 0x10000):
        ts.append({"name": f"sasl-singles-{lo >> 16:02d}", "fn": "t_sasl_singles", "kw": {"lo": lo, "hi": lo + 0x10000}})
    ts.append({"name": "sasl-hyp", "fn": "t_sasl_hyp"})
    return ts
