"""C08 -- malformed or altered hash strings are rejected cleanly and never verify."""

from __future__ import annotations

import re

from ..common import DOCUMENTED_ERRORS, Recorder, call, exc_site, hyp_campaign, oracle, short
from ..gens import table
from ..mutate import arbitrary, mutants, single_edits
from ..refs import formats as RF
from .c02 import fixed_ctx, fixed_settings

PROPERTY = "C08"
LEVEL = "exploration"
RULE = (
    "For every hasher: one (thorough: 20) valid hash made at cheap cost for a known password, then (i) the complete single-edit "
    "sweep (every deletion and truncation and 3-4 substitutions at every position, append, empty), (ii) Hypothesis mutants "
    "(1-2 stacked edits: in/out-of-alphabet substitution, deletion, insertion, duplication, field swap, separator "
    "duplication/removal, numeric edits incl. zero padding, signs, underscores, full-width digits, 2^32, 2^64, ident swaps, case "
    "flips, NUL/non-ASCII/newline, str or bytes) and (iii) arbitrary text/bytes; the same through CryptContexts built from generated "
    "scheme lists. Oracle: (a) identify() returns a bool, ctx.identify a name or None; (b) verify/needs_update/from_string and the "
    "context methods return or raise ValueError/TypeError only; (c) if verify(p, m) is True for a mutant m != h then m must be a "
    "re-encoding of the same content: its parsed digest-feeding settings equal the original's and its re-rendering equals h, or "
    "the independent reference digest for (p, parsed settings) equals m's re-rendered digest. Non-trivial = mutant != original "
    "that still passes identify(), or an edit inside the digest region; distinct by (hasher, mutation class, position bucket)."
)
ASSUMPTIONS = [
    "non-canonical re-encodings of unchanged values (rounds=1_000, junk characters skipped by the lenient base64 decoder) are counted (noncanonical_accepted) but not violations",
    "mssql2000: the first (case-sensitive) digest half is documented as unused by verification and treated as padding; scram is judged through verify(full=True)",
    "mutants whose parsed cost exceeds the cheap-cost table skip verify() (cost_skipped); identify/needs_update are always called",
]
LEVEL_TEXT = (
    "Complete single-edit sweep of one valid hash per hasher plus seeded structure-aware mutation fuzzing and arbitrary strings, "
    "judged by an exception-class oracle and by a parse/re-render/reference oracle for anything that still verifies."
)
LEVEL_NOTE = "Trusted: vpchk/refs reference digests (only consulted for mutants that verify), Hypothesis, the cheap-cost table."
TECHNIQUE = "exhaustive single-edit sweep + Hypothesis structure-aware mutation fuzzing with exception-class and re-render/reference oracle"
#: thorough tier: seed-dependent tasks are repeated under this many derived seeds (run.py); the listed task functions enumerate fixed domains
THOROUGH_REPS = 3
DETERMINISTIC_FNS = ('t_sweep',)

PASSWORD = "pässw0rd"
COST_LIMIT = {
    "sha256_crypt": 60000, "sha512_crypt": 60000, "bcrypt": 6, "bcrypt_sha256": 6, "django_bcrypt": 6, "django_bcrypt_sha256": 6, "scrypt": 8, "phpass": 13,
    "sun_md5_crypt": 20000, "bsdi_crypt": 200000, "sha1_crypt": 200000, "fshp": 200000, "scram": 20000, "grub_pbkdf2_sha512": 100000,
}
DEFAULT_COST_LIMIT = 400000


def make_hash(name, i=0):
    h = table.handler(name)
    s = fixed_settings(name, i)
    if "bcrypt" in name:
        s["rounds"] = 4
    ctx = fixed_ctx(name, i)
    secret = PASSWORD
    f = table.T[name]
    if f.maxlen:
        secret = secret[: f.maxlen // 2]
    return (h.using(**s) if s else h).hash(secret, **ctx), s, ctx, secret


def _inner(name):
    """(handler used for parsing, prefix to strip, prefix to add) -- prefix wrappers parse through the wrapped hasher"""
    h = table.handler(name)
    if hasattr(h, "wrapped") and hasattr(h, "prefix") and not hasattr(h, "from_string"):
        return h.wrapped, h.prefix, h.orig_prefix or ""
    return h, "", ""


def parsed_settings(name, obj):
    out = {}
    for k in ("salt", "rounds", "ident", "variant", "version", "block_size", "parallelism", "algs", "bare_salt", "implicit_rounds"):
        if hasattr(obj, k):
            v = getattr(obj, k)
            if v is not None:
                out[k] = v
    return out


def too_costly(name, st):
    base = table.T[name].base
    key = name if name in COST_LIMIT else base
    lim = COST_LIMIT.get(key, DEFAULT_COST_LIMIT)
    r = st.get("rounds")
    if r is None:
        return False
    if key == "scrypt":
        return r > lim or st.get("block_size", 8) * st.get("parallelism", 1) > 64
    return r > lim


def _verify(name, h, secret, m, ctx):
    if name == "scram":
        st, r = call(h.verify, secret, m, full=True)
        if st == "err" and isinstance(r, ValueError):
            return "ok", False  # "the hash is considered malformed": not accepted
        return st, r
    return call(h.verify, secret, m, **ctx)


_ROUTES = {}


def _other_routes(name, h):
    if name not in _ROUTES:
        from passlib.context import CryptContext

        routes = []
        for via, mk in (("using(relaxed=True)", lambda: h.using(relaxed=True)), ("using()", lambda: h.using()), ("CryptContext", lambda: CryptContext(schemes=[h]).handler())):
            try:
                routes.append((via, mk()))
            except Exception:  # noqa: BLE001  (wrappers / static hashers without using(): route not available)
                pass
        _ROUTES[name] = routes
    return _ROUTES[name]


def _digest_view(name, text):
    if name == "mssql2000" and isinstance(text, str):
        return text[:14].upper() + text[54:].upper()  # 0x0100 + salt + second (upper-case) digest half
    return text


@oracle(PROPERTY, "mutant")
def o_mutant(rec: Recorder, case, soft=False):
    """case: {name, i, mutant(str|bytes), label}"""
    name, m, label = case["name"], case["mutant"], case.get("label", "?")
    h = table.handler(name)
    f = table.T[name]
    hs, settings, ctx, secret = make_hash(name, case.get("i", 0))
    # (a) identify is total
    st, r = call(h.identify, m)
    if st == "err" or not isinstance(r, bool):
        rec.fail(f"C08/identify-raises/{name}/{type(r).__name__ if st == 'err' else 'non-bool'}", f"{name}.identify() raised or returned a non-bool for a string", "mutant", case, repr(r), "bool", soft=soft)
        return
    identified = r
    # (b) clean failure of parse / needs_update / verify
    ph, strip, add = _inner(name)
    obj = None
    mt = m
    if hasattr(ph, "from_string"):
        arg = m
        if strip:
            t = m.decode("utf-8", "replace") if isinstance(m, bytes) else m
            arg = add + t[len(strip):] if t.startswith(strip) else None
        if arg is not None:
            st, r = call(ph.from_string, arg)
            if st == "err":
                if not isinstance(r, DOCUMENTED_ERRORS):
                    rec.fail(f"C08/internal-error/{name}/from_string/{type(r).__name__}@{exc_site(r)}", f"{name}.from_string raised {type(r).__name__} (internal error) on a malformed string", "mutant", case, repr(r), "ValueError/TypeError", soft=soft)
                    return
            else:
                obj = r
    st, r = call(h.needs_update, m)
    if st == "err" and not isinstance(r, DOCUMENTED_ERRORS):
        rec.fail(f"C08/internal-error/{name}/needs_update/{type(r).__name__}@{exc_site(r)}", f"{name}.needs_update raised {type(r).__name__} (internal error)", "mutant", case, repr(r), "ValueError/TypeError", soft=soft)
        return
    pst = parsed_settings(name, obj) if obj is not None else {}
    if obj is not None and too_costly(name, pst):
        rec.count("cost_skipped")
        return
    st, r = _verify(name, h, secret, m, ctx)
    if st == "err" and name != "scram":
        # what the hasher refuses as malformed must not verify through a configured copy of it or through a CryptContext either
        # (both parse with the same strictness: relaxed=True is documented to affect the settings of NEW hashes only)
        for via, hc in _other_routes(name, h):
            rec.count(f"route:{via}")
            if hasattr(h, "from_string") and hasattr(hc, "from_string"):
                # compared at the parser (no digest is computed: a wrongly accepted cost field could be astronomically expensive)
                if call(h.from_string, m)[0] == "err" and call(hc.from_string, m)[0] == "ok":
                    rec.fail(f"C08/altered-accepted/{name}/{via}", f"{name}: a string the hasher itself refuses as malformed is parsed as a valid hash by {via}", "mutant", case, "parsed", repr(r), soft=soft)
                    return
            elif "rounds" not in fixed_settings(name, 0):
                st2, r2 = call(hc.verify, secret, m, **ctx)
                if st2 == "ok" and r2 is True:
                    rec.fail(f"C08/altered-accepted/{name}/{via}", f"{name}: a string the hasher itself refuses as malformed verifies the original password through {via}", "mutant", case, True, repr(r), soft=soft)
                    return
    if st == "err":
        if not isinstance(r, DOCUMENTED_ERRORS):
            rec.fail(f"C08/internal-error/{name}/verify/{type(r).__name__}@{exc_site(r)}", f"{name}.verify raised {type(r).__name__} (internal error) on a malformed string", "mutant", case, repr(r), "ValueError/TypeError", soft=soft)
        else:
            rec.count("rejected:error")
        return
    if not isinstance(r, bool):
        rec.fail(f"C08/verify-non-bool/{name}", f"{name}.verify returned a non-bool", "mutant", case, repr(r), "bool", soft=soft)
        return
    if not r:
        rec.count("rejected:false")
        return
    # (c) it verified: is it the same content?
    mtext = m.decode("utf-8", "replace") if isinstance(m, bytes) else m
    if mtext == hs:
        rec.count("accepted:identical")
        return
    if (f.plaintext and obj is None) or f.disabled:
        rec.fail(f"C08/altered-accepted/{name}", f"{name}: an altered stored value verifies the original password", "mutant", case, mtext, hs, soft=soft)
        return
    if obj is None:
        if name == "htdigest" and mtext.lower() == hs.lower():
            rec.count("accepted:hexcase")
            return
        rec.count("accepted:unjudged")
        rec.sample("accepted-unjudged", {"name": name, "mutant": m, "original": hs})
        return
    rendered = strip + obj.to_string()[len(add):] if strip else obj.to_string()
    orig_obj = ph.from_string(add + hs[len(strip):] if strip else hs)
    ost = parsed_settings(name, orig_obj)
    same_settings = all(pst.get(k) == ost.get(k) for k in set(pst) | set(ost) if k != "implicit_rounds")
    if same_settings and _digest_view(name, rendered) == _digest_view(name, hs if not strip else hs):
        cls = classify_reencoding(name, mtext, hs)
        rec.count(f"noncanonical_accepted:{cls}")
        rec.sample(f"noncanonical_accepted:{cls}", {"name": name, "mutant": m, "original": hs, "label": label})
        # structural rule that both readings of the property agree on: in the '$'-separated formats a verifying
        # string has exactly the fields of the stored one (no field may be added, dropped or duplicated)
        # a field whose text was really changed (extra / missing / different in-alphabet characters, not just letter case,
        # a single padding-bit character, or decoration the parser strips) must not be silently normalised back to the
        # stored value: that is an altered setting or digest verifying (e.g. over-long salt cut back, rounds clipped)
        i0 = 0
        while i0 < min(len(mtext), len(hs)) and mtext[i0] == hs[i0]:
            i0 += 1
        j0 = 0
        while j0 < min(len(mtext), len(hs)) - i0 and mtext[len(mtext) - 1 - j0] == hs[len(hs) - 1 - j0]:
            j0 += 1
        mm, hm = mtext[i0 : len(mtext) - j0], hs[i0 : len(hs) - j0]
        alnum = "ABCDEFGHIJKLMNOPQRSTUVWXYZabcdefghijklmnopqrstuvwxyz0123456789"
        # characters that are data for this format (anything else inside a base64 field is skipped by the lenient stdlib decoder)
        if name == "cta_pbkdf2_sha1":
            field = set(alnum + "-_")
        elif name in ("atlassian_pbkdf2_sha1", "django_pbkdf2_sha1", "django_pbkdf2_sha256", "fshp", "ldap_md5", "ldap_sha1", "ldap_salted_md5", "ldap_salted_sha1",
                      "ldap_salted_sha256", "ldap_salted_sha512", "scrypt"):
            field = set(alnum + "+/")
        else:
            field = set(alnum + "./")
        lenient_b64 = name in ("cta_pbkdf2_sha1", "atlassian_pbkdf2_sha1", "django_pbkdf2_sha1", "django_pbkdf2_sha256", "fshp", "ldap_md5", "ldap_sha1", "ldap_salted_md5",
                               "ldap_salted_sha1", "ldap_salted_sha256", "ldap_salted_sha512", "scrypt")  # stdlib decoder ignores junk and anything after '=' padding
        # zero-padded numbers: passlib documents their rejection (exc.ZeroPaddedRoundsError); the formats whose fields are fixed-width or
        # free-form integers by specification are the exception
        if cls == "int-decoration" and name not in ("bcrypt_sha256", "django_bcrypt_sha256", "fshp", "scrypt") and mtext != hs \
                and re.sub(r"(?<![0-9A-Za-z./+=])0+(?=[0-9])", "", mtext) == hs:
            rec.fail(f"C08/zero-padded-number-accepted/{name}", f"{name}: a hash whose cost field was padded with zeros verifies the original password ({label})", "mutant", case, short(mtext, 200), short(hs, 200), soft=soft)
            return
        single = len(mm) == len(hm) == 1
        if single:
            # a one-character substitution is an unused-padding-bits re-encoding only at the end of a base64 salt / digest field
            # (bcrypt: also the 22nd salt character); anywhere else (a parameter name, a separator keyword) it is an altered field
            nxt = hs[i0 + 1 : i0 + 2]
            seg = hs[:i0]
            in_data_field = hs.count("$", i0) <= 1 or "$" not in hs
            if name == "scram":  # $scram$rounds$salt$alg=digest,alg=digest: every digest ends before ',' or the end
                in_data_field = (hs.count("$", i0) == 0 and "=" in hs[hs.rfind(",", 0, i0) + 1 : i0]) or hs.count("$", i0) == 1
            pad_pos = in_data_field and nxt in ("", "$", "=", ",") and not (seg.endswith(",") or seg.endswith("$"))
            if "bcrypt" in name:
                pad_pos = pad_pos or (hs.count("$", i0) == 0 and len(hs) - i0 == 32)
            single_ok = pad_pos and mm in field and hm in field
        else:
            single_ok = False
        judged_lenient = lenient_b64 and not (single and not single_ok)
        if not judged_lenient and cls not in ("letter-case", "int-decoration", "base64-lenient", "mssql2000-unused-half") and set(mm) <= field and set(hm) <= field and mm.lower() != hm.lower() \
                and not single_ok and not (name == "django_des_crypt" and mtext.startswith("crypt$$")):  # documented elided-salt form
            rec.fail(f"C08/altered-field-accepted/{name}", f"{name}: a hash with a textually altered field ({hm!r} -> {mm!r}) is normalised back and verifies the original password ({label})",
                     "mutant", case, short(mtext, 200), short(hs, 200), soft=soft)
            return
        if "$" in hs and mtext.count("$") != hs.count("$"):
            rec.fail(f"C08/field-count-accepted/{name}", f"{name}: a string with a different number of '$'-separated fields than the stored hash verifies the original password ({label})",
                     "mutant", case, short(mtext, 200), short(hs, 200), soft=soft)
        return
    # settings or digest differ: consult the independent reference for (password, parsed settings)
    ns = dict(pst)
    if "ident" in ns and isinstance(ns["ident"], str) and not ns["ident"].startswith("$") and "bcrypt" not in name:
        pass
    try:
        ref = RF.ref_hash(table.T[name].base if strip and name.startswith("ldap_") and False else name, secret, _ref_settings(name, ns), ctx)
    except (UnicodeError, ValueError, KeyError):
        ref = None
    if ref is None:
        rec.count("accepted:unjudged")
        rec.sample("accepted-unjudged", {"name": name, "mutant": m, "original": hs})
        return
    if _digest_view(name, ref) == _digest_view(name, rendered) or (name in ("htdigest",) and ref.lower() == rendered.lower()):
        rec.count("accepted:consistent-with-reference")
        return
    rec.fail(f"C08/altered-accepted/{name}", f"{name}: a hash whose digest or digest-feeding settings were altered verifies the original password ({label})", "mutant", case,
             {"mutant": short(mtext, 160), "rendered": short(rendered, 160)}, {"original": short(hs, 160), "reference_for_parsed_settings": short(ref, 160)}, soft=soft)


_NUMISH = set("0123456789+-_ \t\n\r\x0b\x0c")


def _numish(t):
    return all(c in _NUMISH or c.isdigit() or c.isspace() for c in t)


def classify_reencoding(name, m, h):
    """how does an accepted string m differ from the stored hash h (same parsed settings, same re-rendering)?
    known tolerated classes on the unchanged tree (DESIGN.md C08): hex/letter case of case-insensitive fields, Python int()
    decorations of numeric fields (sign, underscores, blanks, non-ASCII digits, leading zeros where the format allows),
    characters skipped by the lenient stdlib base64 decoder, unused base64 padding bits / '=' padding, '+' for '.' in ab64."""
    if m.lower() == h.lower():
        return "letter-case"
    # common prefix / suffix
    i = 0
    while i < min(len(m), len(h)) and m[i] == h[i]:
        i += 1
    j = 0
    while j < min(len(m), len(h)) - i and m[len(m) - 1 - j] == h[len(h) - 1 - j]:
        j += 1
    mm, hm = m[i : len(m) - j], h[i : len(h) - j]
    # widen to the whole numeric run around the difference
    a, b = i, len(h) - j
    while a > 0 and (h[a - 1].isdigit()):
        a -= 1
    while b < len(h) and h[b].isdigit():
        b += 1
    hnum = h[a:b]
    mnum = m[a : len(m) - (len(h) - b)]
    if hnum.isdigit() and _numish(mnum):
        try:
            if int(mnum) == int(hnum):
                return "int-decoration"
        except ValueError:
            pass
    if hnum == "" and _numish(mnum) and mnum.strip() == "":
        return "int-decoration"
    if hnum.isdigit() or (hm == "" and _numish(mm)):
        try:
            if int(mnum, 16) == int(hnum, 16) and name in ("cta_pbkdf2_sha1", "dlitz_pbkdf2_sha1"):
                return "int-decoration"
        except ValueError:
            pass
    b64_formats = {"atlassian_pbkdf2_sha1", "cta_pbkdf2_sha1", "django_pbkdf2_sha1", "django_pbkdf2_sha256", "fshp", "ldap_md5", "ldap_sha1", "ldap_salted_md5", "ldap_salted_sha1",
                   "ldap_salted_sha256", "ldap_salted_sha512", "scrypt", "pbkdf2_sha1", "pbkdf2_sha256", "pbkdf2_sha512", "ldap_pbkdf2_sha1", "ldap_pbkdf2_sha256",
                   "ldap_pbkdf2_sha512", "scram", "django_bcrypt_sha256", "dlitz_pbkdf2_sha1"}
    if name in b64_formats:
        b64 = set("ABCDEFGHIJKLMNOPQRSTUVWXYZabcdefghijklmnopqrstuvwxyz0123456789+/.-_=")
        strip_m = "".join(c for c in m if c in b64)
        strip_h = "".join(c for c in h if c in b64)
        if strip_m.replace("+", ".").replace("=", "") == strip_h.replace("+", ".").replace("=", ""):
            return "base64-lenient"
        if len(m) == len(h) and sum(1 for x, y in zip(m, h) if x != y) == 1:
            return "base64-padding-bits"
    if "bcrypt" in name and len(m) == len(h) and sum(1 for x, y in zip(m, h) if x != y) <= 2:
        return "bcrypt-padding-bits"
    if name in ("mssql2000",) and m[:14].upper() == h[:14].upper() and m[54:].upper() == h[54:].upper():
        return "mssql2000-unused-half"
    return "other"


def _ref_settings(name, ns):
    s = dict(ns)
    if name in ("bcrypt", "ldap_bcrypt", "django_bcrypt", "django_bcrypt_sha256", "bcrypt_sha256"):
        i = s.get("ident", "$2b$")
        for pre in ("bcrypt$", "{CRYPT}"):
            if i.startswith(pre):
                i = i[len(pre):]
        s["ident"] = i
    if name == "scram" and "algs" in s:
        s["algs"] = list(s["algs"])
    return s


@oracle(PROPERTY, "context")
def o_context(rec: Recorder, case, soft=False):
    """case: {schemes:[..], mutant, secret?}"""
    from passlib.context import CryptContext

    schemes, m = case["schemes"], case["mutant"]
    opts = {}
    for s in schemes:
        fs = fixed_settings(s, 0)
        if "rounds" in fs:
            opts[f"{s}__rounds"] = 4 if "bcrypt" in s else fs["rounds"]
    ctx = CryptContext(schemes=schemes, **opts)
    st, r = call(ctx.identify, m)
    if st == "err" or not (r is None or r in schemes):
        if not (st == "err" and isinstance(r, DOCUMENTED_ERRORS) and not isinstance(m, (str, bytes))):
            rec.fail(f"C08/context-identify/{type(r).__name__ if st == 'err' else 'bad-value'}", "CryptContext.identify raised or returned something else than a scheme name / None", "context", case, repr(r), "name or None", soft=soft)
            return
    for meth in ("verify", "needs_update", "verify_and_update"):
        args = (PASSWORD, m) if meth != "needs_update" else (m,)
        st, r = call(getattr(ctx, meth), *args)
        if st == "err" and not isinstance(r, DOCUMENTED_ERRORS):
            rec.fail(f"C08/internal-error/context/{meth}/{type(r).__name__}@{exc_site(r)}", f"CryptContext.{meth} raised {type(r).__name__} (internal error) on a malformed hash", "context", case, repr(r), "ValueError/TypeError", soft=soft)
            return
        if st == "ok" and meth == "verify" and r is True and case.get("must_reject"):
            rec.fail("C08/context-accepts-altered", "CryptContext.verify accepts an altered hash", "context", case, True, False, soft=soft)


ORACLES = {"mutant": o_mutant, "context": o_context}


# ---- tasks ---------------------------------------------------------------------------------------------
def _region(name, hs, pos):
    ph, strip, add = _inner(name)
    try:
        obj = ph.from_string(add + hs[len(strip):] if strip else hs)
        chk = obj.checksum
        if isinstance(chk, str) and hs.endswith(chk):
            return "digest" if pos >= len(hs) - len(chk) else "settings"
    except Exception:  # noqa: BLE001
        pass
    return "tail" if pos >= len(hs) * 2 // 3 else "head"


def t_sweep(rec, seed, tier, name):
    if not table.available(name):
        rec.count(f"skipped_unavailable:{name}")
        return
    nh = 1 if tier == "quick" else 6
    # quick tier: the other ident / variant forms of the format get the (cheap) truncation-at-every-position sweep only
    nvar = max([len(v) for v in table.T[name].extra.values()] + [1])
    n = 0
    idx = list(range(max(nh, min(nvar, 4))))
    f0 = table.T[name]
    big_salt = None
    if f0.salt and f0.salt[0] != "int" and f0.salt[2] > f0.salt[1]:
        big_salt = 16 * max(nvar, 1) + (min(f0.salt[2], 16) - f0.salt[1])  # fixed_settings(): the salt of maximal (<=16) size, first ident
        big_salt = next((j for j in range(64) if len(fixed_settings(name, j).get("salt") or "") == min(f0.salt[2], 16)), None)
        if big_salt is not None and big_salt not in idx:
            idx.append(big_salt)
    for i in idx:
        hs, s, ctx, secret = make_hash(name, i)
        for label, pos, m in single_edits(hs, per_pos=3 if tier == "quick" else 4):
            if i >= nh and i != big_salt and label != "truncate":
                continue
            if i == big_salt and i >= nh and label not in ("grow-token", "dup-token", "truncate"):
                continue  # the hash with a salt of maximal size gets the field-growing edits (and truncations)
            if tier == "quick" and len(hs) > 120 and label != "subst" and pos % 2:
                continue
            forms = [m]
            if pos % 11 == 0:
                forms.append(m.encode("utf-8"))
            for form in forms:
                case = {"name": name, "i": i, "mutant": form, "label": f"{label}@{pos}"}
                o_mutant(rec, case, soft=True)
                n += 1
                reg = _region(name, hs, pos) if (pos % 7 == 0 or n < 40) else "?"
                if m != hs:
                    rec.nt(name, label, min(pos, len(hs)) * 8 // max(1, len(hs)), reg, isinstance(form, bytes))
                if n % 97 == 0:
                    rec.sample(f"sweep:{name}", {**case, "original": hs})
    rec.ev(n)
    rec.subrecord(f"single-edit-sweep:{name}", exhaustive_positions=True, hashes=nh)


def t_hyp(rec, seed, tier, name):
    from hypothesis import strategies as st

    if not table.available(name):
        return
    n = {"quick": 150, "thorough": 2500}[tier]
    hashes = [make_hash(name, i)[0] for i in range(2 if tier == "quick" else 8)]

    @st.composite
    def cases(draw):
        i = draw(st.integers(0, len(hashes) - 1))
        if draw(st.integers(0, 7)) == 0:
            return {"name": name, "i": i, "mutant": draw(arbitrary()), "label": "arbitrary"}
        label, m = draw(mutants(hashes[i]))
        return {"name": name, "i": i, "mutant": m, "label": label}

    def body(case):
        rec.ev()
        m = case["mutant"]
        h = table.handler(name)
        idn = call(h.identify, m)
        if idn == ("ok", True) and (m.decode("utf-8", "replace") if isinstance(m, bytes) else m) != hashes[case["i"]]:
            rec.nt("hyp", name, case["label"], repr(m)[:80])
        rec.count(f"hyp:{case['label'].split('+')[0]}")
        rec.sample(f"hyp:{name}", case)
        o_mutant(rec, case)

    hyp_campaign(rec, body, cases(), n, seed, shrink_budget=15)


def t_context(rec, seed, tier):
    from hypothesis import strategies as st

    n = {"quick": 400, "thorough": 5000}[tier]
    pool = [s for s in ["des_crypt", "md5_crypt", "sha256_crypt", "sha512_crypt", "sha1_crypt", "bsdi_crypt", "pbkdf2_sha256", "phpass", "bcrypt", "scram", "ldap_salted_sha1",
                        "hex_md5", "mysql41", "nthash", "plaintext", "unix_disabled", "django_pbkdf2_sha256", "scrypt", "sun_md5_crypt", "apr_md5_crypt", "oracle11",
                        "mssql2005", "cisco_type7", "fshp", "grub_pbkdf2_sha512", "django_disabled", "bcrypt_sha256", "ldap_md5_crypt", "lmhash"] if table.available(s)]
    bank = {s: make_hash(s, 0)[0] for s in pool if not table.T[s].ctx}

    @st.composite
    def cases(draw):
        schemes = draw(st.lists(st.sampled_from(pool), min_size=1, max_size=5, unique=True))
        schemes = [s for s in schemes if not table.T[s].ctx] or ["md5_crypt"]
        if draw(st.integers(0, 4)) == 0:
            m = draw(arbitrary())
            label = "arbitrary"
        else:
            src = draw(st.sampled_from(sorted(bank)))
            label, m = draw(mutants(bank[src]))
        return {"schemes": schemes, "mutant": m, "label": label}

    def body(case):
        rec.ev()
        rec.count(f"context:{len(case['schemes'])}-schemes")
        rec.nt("ctx", tuple(case["schemes"]), repr(case["mutant"])[:60])
        rec.sample("context", case)
        o_context(rec, case)

    hyp_campaign(rec, body, cases(), n, seed, shrink_budget=15)


def tasks(tier):
    ts = []
    for name in sorted(table.T):
        ts.append({"name": f"sweep-{name}", "fn": "t_sweep", "kw": {"name": name}})
        ts.append({"name": f"hyp-{name}", "fn": "t_hyp", "kw": {"name": name}})
    ts.append({"name": "context", "fn": "t_context"})
    return ts
