"""C06 -- generated salts, keys and passwords are uniform over their declared space."""

from __future__ import annotations

import itertools
import math
import random

from ..common import Recorder, call, hyp_campaign, oracle
from ..gens import table
from ..rngctl import ScriptedRandom, patched_rng

PROPERTY = "C06"
LEVEL = "exploration"
RULE = (
    "Layer 1 (exact, scripted random source): getrandbytes(n) for n in {1,2} (thorough: 3) and getrandstr over alphabets of 2..94 "
    "symbols whenever N^count <= 2*10^5 (thorough 2*10^7) are enumerated over EVERY value the random source can return; the "
    "output multiset must hit every element of the declared space equally often. For larger sizes: total source bits >= 8n, the "
    "source->output map is checked GF(2)-linear on random pairs and then decided bijective exactly by the rank of the unit-vector "
    "images; getrandstr: product of requested ranges divisible by N^count, injectivity on generated pairs and boundary values. "
    "Layer 2: every salted hasher x salt_size, TOTP.new sizes, generate_secret, genword/genphrase x entropy/length/charset/wordset "
    "with the scripted source patched in: declared size and alphabet, requested source space == declared space, distinct draws "
    "give distinct values, length*log2(N) >= requested entropy. Layer 3: seeded statistical tests (per-position and adjacent-pair "
    "chi-square at p<1e-12, bit-overlap between neighbouring bytes) for sizes 4..64. Layer 4: a `salt` option injected anywhere in a "
    "CryptContext configuration must be refused or have no pinning effect. Non-trivial = size>=2 and alphabet>=2; enumerated "
    "sub-domains counted exactly."
)
ASSUMPTIONS = [
    "random.Random's derived methods (randrange/randint/choice) draw through getrandbits/_randbelow, which the scripted source overrides",
    "libpass._salt uses secrets.choice (not injectable): covered by size/alphabet/statistics only",
    "chi-square thresholds at p<1e-12 with a fixed seed: false-alarm probability negligible",
]
LEVEL_TEXT = (
    "Exact decision on small source spaces by complete enumeration of the random source (every possible source value is fed in), an "
    "algebraic (GF(2) rank) decision of bijectivity for larger byte strings, generated-pair injectivity for strings, and seeded "
    "statistics for the rest; all through the public helpers and the public generators with the source replaced from outside."
)
LEVEL_NOTE = "Trusted: CPython random.Random method structure, Hypothesis, the Wilson-Hilferty chi-square quantile approximation."
TECHNIQUE = "exhaustive enumeration of a scripted random source + GF(2) rank test + Hypothesis injectivity + seeded chi-square statistics"
#: thorough tier: seed-dependent tasks are repeated under this many derived seeds (run.py); the listed task functions enumerate fixed domains
THOROUGH_REPS = 2
DETERMINISTIC_FNS = ('t_exh_bytes', 't_exh_str', 't_context_salt', 't_linear_bytes')
RULE += " A salt option is tried globally, per scheme and per user category, and hashes are drawn for every category. cisco_type7 offsets cover 0..15 uniformly; libpass salts (scripted chooser for the exact part, chi-square per position for the real one) have ceil(entropy/log2 N) characters of the alphabet."
ASSUMPTIONS = [('libpass._salt draws through secrets.choice: the module attribute is replaced by a scripted chooser for the exact part, the real one is used for the statistics' if a.startswith('libpass._salt uses secrets.cho') or 'libpass._salt uses secrets.cho' in a else a) for a in ASSUMPTIONS]

ALPHABETS = [
    "01", "abc", "0123456789", "0123456789abcdef", table.H64, table.DJANGO_SALT,
    "".join(chr(c) for c in range(33, 127)), "abcdefghijklmnopqrstuvwxyzABCDEFGHIJKLMNOPQRSTUVWXYZ23456789"[:52], "é€x\U0001F600y",
]


def _gr():
    from passlib.utils import getrandbytes, getrandstr

    return getrandbytes, getrandstr


def learn_pattern(fn):
    r = ScriptedRandom([])
    out = fn(r)
    return r.requests[:], r.sizes(), out


# ---- layer 1 ------------------------------------------------------------------------------------
@oracle(PROPERTY, "exhaustive_bytes")
def o_exh_bytes(rec: Recorder, case, soft=False):
    """case: {n, lo, hi?}: enumerate every source value for getrandbytes(n) (optionally a slice [lo,hi) of the first request)"""
    getrandbytes, _ = _gr()
    n = case["n"]
    fn = lambda r: getrandbytes(r, n)  # noqa: E731
    reqs, sizes, _ = learn_pattern(fn)
    total = math.prod(sizes) if sizes else 1
    if total < 256**n:
        rec.fail("C06/getrandbytes/too-few-source-values", f"getrandbytes(rng,{n}) draws fewer source values ({total}) than outputs ({256**n})", "exhaustive_bytes", case, sizes, 256**n, soft=soft)
        return
    if total > 1 << 25:
        rec.count("exhaustive_bytes:too_large")
        return
    counts = {}
    lo, hi = case.get("lo", 0), case.get("hi", sizes[0] if sizes else 1)
    rest = [range(s) for s in sizes[1:]]
    k = 0
    for first in range(lo, hi):
        for tail in itertools.product(*rest):
            r = ScriptedRandom((first,) + tail)
            out = getrandbytes(r, n)
            counts[out] = counts.get(out, 0) + 1
            k += 1
    rec.ev(k)
    if len(out) != n:
        rec.fail("C06/getrandbytes/length", "getrandbytes returned the wrong length", "exhaustive_bytes", case, len(out), n, soft=soft)
        return
    full = lo == 0 and hi == (sizes[0] if sizes else 1)
    if full:
        each = total // 256**n
        if len(counts) != 256**n or set(counts.values()) != {each}:
            worst = sorted(counts.items(), key=lambda kv: -kv[1])[:3]
            rec.fail("C06/getrandbytes/not-uniform", f"getrandbytes(rng,{n}): over all {total} source values only {len(counts)} of {256**n} outputs occur / unequal preimage counts",
                     "exhaustive_bytes", case, {"distinct": len(counts), "most_frequent": [(o.hex(), c) for o, c in worst]}, f"{256**n} outputs x {each}", soft=soft)
            return
        rec.nt_bulk(256**n if n >= 2 else 0)
    else:
        # a slice of a bijection must still be injective
        if total == 256**n and max(counts.values()) > 1:
            rec.fail("C06/getrandbytes/not-uniform", f"getrandbytes(rng,{n}): two source values give the same output", "exhaustive_bytes", case, None, None, soft=soft)
            return
        rec.nt_bulk(k)
    rec.subrecord(f"getrandbytes-{n}", exhaustive=True, source_values=total)


def _rank_gf2(rows):
    rows = [r for r in rows if r]
    rank = 0
    while rows:
        p = rows.pop()
        if not p:
            continue
        rank += 1
        hb = p.bit_length() - 1
        rows = [r ^ p if (r >> hb) & 1 else r for r in rows]
        rows = [r for r in rows if r]
    return rank


@oracle(PROPERTY, "linear_bytes")
def o_linear_bytes(rec, case, soft=False):
    """case: {n, pairs:[[v,w]...]}: for larger n decide bijectivity algebraically"""
    getrandbytes, _ = _gr()
    n = case["n"]
    fn = lambda r: getrandbytes(r, n)  # noqa: E731
    reqs, sizes, out0 = learn_pattern(fn)
    total_bits = sum(a if kind == "bits" else int(math.log2(a)) for kind, a in reqs)
    if len(out0) != n:
        rec.fail("C06/getrandbytes/length", "getrandbytes returned the wrong length", "linear_bytes", case, len(out0), n, soft=soft)
        return
    if total_bits < 8 * n:
        rec.fail("C06/getrandbytes/too-few-source-values", f"getrandbytes(rng,{n}) draws {total_bits} source bits for {8 * n} output bits", "linear_bytes", case, reqs, 8 * n, soft=soft)
        return
    if len(reqs) != 1 or reqs[0][0] != "bits":
        rec.count("linear_bytes:multi-request-pattern")
        return
    k = reqs[0][1]
    f = lambda v: int.from_bytes(getrandbytes(ScriptedRandom([v]), n), "big")  # noqa: E731
    f0 = f(0)
    linear = True
    for v, w in case["pairs"]:
        v &= (1 << k) - 1
        w &= (1 << k) - 1
        if f(v ^ w) != f(v) ^ f(w) ^ f0:
            linear = False
            break
        if v != w and k == 8 * n and f(v) == f(w):
            rec.fail("C06/getrandbytes/not-uniform", f"getrandbytes(rng,{n}): two source values give the same output", "linear_bytes", dict(case, pairs=[[v, w]]), hex(f(v)), "distinct", soft=soft)
            return
    if not linear:
        rec.count("linear_bytes:not-linear")
        return
    rank = _rank_gf2([f(1 << i) ^ f0 for i in range(k)])
    if rank != 8 * n:
        rec.fail("C06/getrandbytes/not-uniform", f"getrandbytes(rng,{n}): source->output map is GF(2)-linear with rank {rank} < {8 * n}: not every byte string is reachable / bytes are bit-wise related",
                 "linear_bytes", dict(case, pairs=[]), rank, 8 * n, soft=soft)
        return
    rec.count("linear_bytes:bijective-by-rank")


@oracle(PROPERTY, "exhaustive_str")
def o_exh_str(rec, case, soft=False):
    """case: {charset (str|bytes), count}"""
    _, getrandstr = _gr()
    cs, count = case["charset"], case["count"]
    N = len(cs)
    fn = lambda r: getrandstr(r, cs, count)  # noqa: E731
    reqs, sizes, out0 = learn_pattern(fn)
    total = math.prod(sizes) if sizes else 1
    space = N**count
    if type(out0) is not type(cs) or len(out0) != count:
        rec.fail("C06/getrandstr/shape", "getrandstr returned wrong type/length", "exhaustive_str", case, repr(out0), count, soft=soft)
        return
    if N > 1 and total % space:
        rec.fail("C06/getrandstr/source-space", f"getrandstr: source space {total} is not a multiple of {N}^{count}; uniform output impossible", "exhaustive_str", case, total, space, soft=soft)
        return
    if total > case.get("limit", 200000):
        rec.count("exhaustive_str:too_large")
        return
    counts = {}
    k = 0
    for combo in itertools.product(*[range(s) for s in sizes]):
        out = getrandstr(ScriptedRandom(combo), cs, count)
        counts[out] = counts.get(out, 0) + 1
        k += 1
    rec.ev(k)
    alpha = set(cs)
    if any(not set(o) <= alpha or len(o) != count for o in counts):
        rec.fail("C06/getrandstr/alphabet", "getrandstr output outside alphabet / wrong length", "exhaustive_str", case, None, None, soft=soft)
        return
    each = total // space if N > 1 else total
    if N > 1 and (len(counts) != space or set(counts.values()) != {each}):
        rec.fail("C06/getrandstr/not-uniform", f"getrandstr over {N} symbols x {count}: {len(counts)} of {space} outputs occur / unequal preimage counts", "exhaustive_str", case,
                 {"distinct": len(counts), "counts": sorted(set(counts.values()))[:5]}, f"{space} x {each}", soft=soft)
        return
    if N >= 2 and count >= 2:
        rec.nt_bulk(space)
    rec.subrecord("getrandstr-exhaustive", exhaustive=True)


@oracle(PROPERTY, "pairs_str")
def o_pairs_str(rec, case, soft=False):
    """case: {charset, count, values:[v...]}: single-request pattern of exactly N^count values must be injective"""
    _, getrandstr = _gr()
    cs, count = case["charset"], case["count"]
    N = len(cs)
    fn = lambda r: getrandstr(r, cs, count)  # noqa: E731
    reqs, sizes, out0 = learn_pattern(fn)
    total = math.prod(sizes) if sizes else 1
    space = N**count
    if N > 1 and total % space:
        rec.fail("C06/getrandstr/source-space", f"getrandstr: source space {total} is not a multiple of {N}^{count}", "pairs_str", case, total, space, soft=soft)
        return
    if len(sizes) != 1 or total != space:
        rec.count("pairs_str:multi-request-pattern")
        return
    seen = {}
    vals = [v % space for v in case["values"]] + [0, 1, space - 1, space // 2, N, N - 1]
    vals += [N**k % space for k in range(count)] + [(N**k - 1) % space for k in range(1, count + 1)] + [(N**k + 1) % space for k in range(count)]
    for v in vals:
        out = getrandstr(ScriptedRandom([v]), cs, count)
        if len(out) != count or not set(out) <= set(cs):
            rec.fail("C06/getrandstr/alphabet", "getrandstr output outside alphabet / wrong length", "pairs_str", case, repr(out), None, soft=soft)
            return
        if out in seen and seen[out] != v:
            rec.fail("C06/getrandstr/not-uniform", f"getrandstr over {N} symbols x {count}: source values {seen[out]} and {v} give the same string", "pairs_str",
                     dict(case, values=[seen[out], v]), repr(out), "distinct", soft=soft)
            return
        seen[out] = v
    # every symbol must be reachable at every position: walk the mixed-radix digits
    reach = [set() for _ in range(count)]
    for k in range(count):
        for d in range(N):
            out = getrandstr(ScriptedRandom([(d * N**k) % space]), cs, count)
            for i, ch in enumerate(out):
                reach[i].add(ch)
    if any(len(r) != N for r in reach):
        rec.fail("C06/getrandstr/unreachable-symbol", "some alphabet symbol is unreachable at some position", "pairs_str", case, [len(r) for r in reach], N, soft=soft)


# ---- layer 2: public generators --------------------------------------------------------------------
def _salt_of(name, hs):
    h = table.handler(name)
    try:
        obj = h.from_string(hs)
    except Exception:  # noqa: BLE001
        return None
    return getattr(obj, "salt", None)


@oracle(PROPERTY, "hasher_salt")
def o_hasher_salt(rec, case, soft=False):
    """case: {name, salt_size|None, scripts:[[ints],[ints]]}"""
    name, size, scripts = case["name"], case.get("salt_size"), case["scripts"]
    f = table.T[name]
    h = table.handler(name)
    from .c02 import fixed_ctx, fixed_settings

    s = fixed_settings(name, 0)
    s.pop("salt", None)
    if "bcrypt" in name:
        s["rounds"] = 4
    if size is not None:
        s["salt_size"] = size
    ctx = fixed_ctx(name, 0)
    custom = h.using(**s) if s else h
    exp_size = size if size is not None else h.default_salt_size
    salts = []
    for script in scripts:
        r = ScriptedRandom(script)
        with patched_rng(r):
            hs = custom.hash("pw", **ctx)
        salt = _salt_of(name, hs)
        if salt is None:
            rec.count("hasher_salt:not-parseable")
            return
        if len(salt) != exp_size:
            rec.fail(f"C06/salt-size/{name}", f"{name}: generated salt has size {len(salt)}, configured {exp_size}", "hasher_salt", case, repr(salt), exp_size, soft=soft)
            return
        chars = h.salt_chars if not isinstance(salt, bytes) else None
        if chars is not None and not set(salt) <= set(chars):
            rec.fail(f"C06/salt-alphabet/{name}", f"{name}: generated salt outside the declared alphabet", "hasher_salt", case, repr(salt), None, soft=soft)
            return
        sizes = r.sizes()
        space = (256 if isinstance(salt, bytes) else len(h.default_salt_chars)) ** exp_size
        total = math.prod(sizes) if sizes else 1
        if exp_size and (total < space or total % space):
            rec.fail(f"C06/salt-source-space/{name}", f"{name}: salt drawn from a source space of {total} values, declared space {space}", "hasher_salt", case, sizes, space, soft=soft)
            return
        salts.append(salt)
    if exp_size and len(scripts) == 2 and scripts[0] != scripts[1] and salts[0] == salts[1]:
        n_draw = 1
        a, b = scripts[0][0] if scripts[0] else 0, scripts[1][0] if scripts[1] else 0
        space = (256 if isinstance(salts[0], bytes) else len(h.default_salt_chars)) ** exp_size
        if (a % space) != (b % space) and "bcrypt" not in name and n_draw:
            rec.fail(f"C06/salt-collision/{name}", f"{name}: two different random draws give the same salt", "hasher_salt", case, repr(salts[0]), "distinct", soft=soft)


@oracle(PROPERTY, "totp_key")
def o_totp_key(rec, case, soft=False):
    from passlib.totp import TOTP

    size, scripts = case["size"], case["scripts"]
    keys = []
    for script in scripts:
        r = ScriptedRandom(script)
        with patched_rng(r):
            kw = {"alg": case["alg"]} if case.get("alg") else {}
            t = TOTP.new(size=size, **kw) if size is not None else TOTP.new(**kw)
        want = size if size is not None else {"sha1": 20, "sha256": 32, "sha512": 64}[case.get("alg") or "sha1"]
        if not isinstance(t.key, bytes) or len(t.key) != want:
            rec.fail("C06/totp-key-size", f"TOTP.new(size={size}) key has {len(t.key)} bytes", "totp_key", case, len(t.key), want, soft=soft)
            return
        total = math.prod(r.sizes()) if r.requests else 1
        if total < 256**want:
            rec.fail("C06/totp-key-source-space", "TOTP.new draws fewer source values than keys", "totp_key", case, r.sizes(), want, soft=soft)
            return
        keys.append(t.key)
    a = scripts[0][0] % (1 << (8 * want)) if scripts[0] else 0
    b = scripts[1][0] % (1 << (8 * want)) if scripts[1] else 0
    if a != b and keys[0] == keys[1]:
        rec.fail("C06/totp-key-collision", "two different random draws give the same TOTP key", "totp_key", case, keys[0].hex(), "distinct", soft=soft)


@oracle(PROPERTY, "genword")
def o_genword(rec, case, soft=False):
    """case: {kind: word|phrase|secret, entropy, length, charset|chars|wordset|words, sep, scripts}"""
    from passlib import pwd, totp

    kind = case["kind"]
    outs = []
    for script in case["scripts"]:
        r = ScriptedRandom(script)
        kw = {}
        for k in ("entropy", "length", "charset", "chars", "wordset", "words", "sep"):
            if case.get(k) is not None:
                kw[k] = case[k]
        if kind == "secret":
            with patched_rng(r):
                out = totp.generate_secret(**{k: v for k, v in kw.items() if k in ("entropy", "charset")})
            alpha = kw.get("charset") or (table.H64[2:] + "+/")[:62] or None
            alpha = kw.get("charset")
            N = len(alpha) if alpha else 62
            ent = kw.get("entropy", 256)
            if alpha and not set(out) <= set(alpha):
                rec.fail("C06/generate_secret/alphabet", "generate_secret output outside charset", "genword", case, out, None, soft=soft)
                return
            if len(out) * math.log2(N) < ent - 1e-9:
                rec.fail("C06/generate_secret/entropy", "generate_secret output carries less than the requested entropy", "genword", case, len(out) * math.log2(N), ent, soft=soft)
                return
            outs.append(out)
            continue
        fn = pwd.genword if kind == "word" else pwd.genphrase
        out = fn(rng=r, **kw)
        if kind == "word":
            alpha = kw.get("chars") or pwd.default_charsets[kw.get("charset") or "ascii_62"]
            N = len(alpha)
            syms = list(out)
            ok = set(out) <= set(alpha)
        else:
            words = kw.get("words") or pwd.default_wordsets[kw.get("wordset") or "eff_long"]
            N = len(words)
            sep = kw.get("sep", " ")
            wl = set(words)
            if sep and not any(sep in w for w in words):
                syms = out.split(sep)
                ok = all(w in wl for w in syms)
            else:
                syms = None
                ok = True
        if not ok:
            rec.fail(f"C06/gen{kind}/alphabet", f"gen{kind} produced a symbol outside its set", "genword", case, out, None, soft=soft)
            return
        ent = kw.get("entropy")
        ent = {"unsafe": 12, "weak": 24, "fair": 36, "strong": 48, "secure": 60}.get(ent, ent)
        if ent is None and kw.get("length") is None:
            ent = 48
        if syms is not None:
            if kw.get("length") and len(syms) < kw["length"]:
                rec.fail(f"C06/gen{kind}/length", f"gen{kind} shorter than the requested length", "genword", case, len(syms), kw["length"], soft=soft)
                return
            if ent is not None and len(syms) * math.log2(N) < ent - 1e-9:
                rec.fail(f"C06/gen{kind}/entropy", f"gen{kind} output carries less than the requested entropy", "genword", case, len(syms) * math.log2(N), ent, soft=soft)
                return
            total = math.prod(r.sizes()) if r.requests else 1
            if total < N ** len(syms) or total % (N ** len(syms)):
                rec.fail(f"C06/gen{kind}/source-space", f"gen{kind} draws from a source space that cannot be uniform over its outputs", "genword", case, r.sizes()[:4], N ** len(syms), soft=soft)
                return
        outs.append(out)
    if len(outs) == 2 and case["scripts"][0] != case["scripts"][1] and outs[0] == outs[1] and kind == "word":
        sp = len(case.get("chars") or "x" * 62) ** len(outs[0])
        a, b = (case["scripts"][0] or [0])[0] % sp, (case["scripts"][1] or [0])[0] % sp
        if a != b and len(case["scripts"][0]) == 1 == len(case["scripts"][1]):
            rec.fail("C06/genword/collision", "two different random draws give the same password", "genword", case, outs[0], "distinct", soft=soft)


@oracle(PROPERTY, "context_salt")
def o_context_salt(rec, case, soft=False):
    """case: {scheme, key, how}: a `salt` option anywhere in a CryptContext config must be refused or have no effect"""
    from passlib.context import CryptContext

    scheme, key, how = case["scheme"], case["key"], case["how"]
    f = table.T[scheme]
    from .c02 import fixed_settings

    fs = fixed_settings(scheme, 3)
    pinned = fs.get("salt")
    base = {"schemes": [scheme]}
    if "rounds" in fs:
        base[f"{scheme}__rounds"] = fs["rounds"] if "bcrypt" not in scheme else 4
    cfg = dict(base)
    cfg[key] = pinned
    if how == "ctor":
        st, ctx = call(CryptContext, **cfg)
    elif how == "update":
        ctx = CryptContext(**base)
        st, r = call(ctx.update, **{key: pinned})
    elif how == "load":
        ctx = CryptContext(**base)
        st, r = call(ctx.load, cfg)
    else:
        st, ctx = call(lambda: CryptContext(**base).copy(**{key: pinned}))
    if st == "err":
        rec.count("context_salt:refused")
        return
    for cat in (None, "admin", "default"):  # the option may have been given for a user category only
        h1, h2 = ctx.hash("pw", category=cat), ctx.hash("pw", category=cat)
        s1, s2 = _salt_of(scheme, h1), _salt_of(scheme, h2)
        if s1 == pinned or (s1 == s2 and s1):
            rec.fail(f"C06/context-pins-salt/{how}", f"CryptContext accepted {key!r} and now produces a fixed salt (category {cat!r})", "context_salt", case, repr(s1), "refused", soft=soft)
            return


# ---- layer 3: statistics ----------------------------------------------------------------------------
def chi2_crit(k, z=7.03):
    """Wilson-Hilferty upper quantile of chi-square with k d.o.f. at standard normal deviate z (p ~ 1e-12)"""
    return k * (1 - 2 / (9 * k) + z * math.sqrt(2 / (9 * k))) ** 3


@oracle(PROPERTY, "stat_bytes")
def o_stat_bytes(rec, case, soft=False):
    """case: {n, draws, seed}"""
    getrandbytes, _ = _gr()
    n, draws = case["n"], case["draws"]
    r = random.Random(case["seed"])
    pos = [[0] * 256 for _ in range(n)]
    pair = [[0] * 1024 for _ in range(n - 1)]
    overlap = [[0] * 8 for _ in range(n - 1)]
    for _ in range(draws):
        out = getrandbytes(r, n)
        for i, b in enumerate(out):
            pos[i][b] += 1
        for i in range(n - 1):
            a, b = out[i], out[i + 1]
            pair[i][((a >> 3) << 5) | (b & 31)] += 1
            for k in range(1, 8):
                if (b & ((1 << (8 - k)) - 1)) == (a >> k):
                    overlap[i][k] += 1
    rec.ev(draws)
    e = draws / 256
    for i in range(n):
        x = sum((c - e) ** 2 / e for c in pos[i])
        if x > chi2_crit(255):
            rec.fail("C06/getrandbytes/stat-position", f"getrandbytes({n}): byte {i} is not uniform (chi2={x:.0f} > {chi2_crit(255):.0f})", "stat_bytes", case, x, chi2_crit(255), soft=soft)
            return
    e = draws / 1024
    for i in range(n - 1):
        x = sum((c - e) ** 2 / e for c in pair[i])
        if x > chi2_crit(1023):
            rec.fail("C06/getrandbytes/stat-adjacent", f"getrandbytes({n}): bytes {i},{i + 1} are not independent (chi2={x:.0f} > {chi2_crit(1023):.0f})", "stat_bytes", case, x, chi2_crit(1023), soft=soft)
            return
        for k in range(1, 8):
            p = 2.0 ** -(8 - k)
            exp, sd = draws * p, math.sqrt(draws * p * (1 - p))
            if overlap[i][k] > exp + 8 * sd + 8:
                rec.fail("C06/getrandbytes/bit-overlap", f"getrandbytes({n}): low {8 - k} bits of byte {i + 1} equal byte {i}>>{k} in {overlap[i][k]}/{draws} draws (expected {exp:.0f})", "stat_bytes", case, overlap[i][k], exp, soft=soft)
                return


@oracle(PROPERTY, "stat_str")
def o_stat_str(rec, case, soft=False):
    _, getrandstr = _gr()
    cs, count, draws = case["charset"], case["count"], case["draws"]
    N = len(cs)
    idx = {c: i for i, c in enumerate(cs)}
    r = random.Random(case["seed"])
    pos = [[0] * N for _ in range(count)]
    M = min(N, 16)
    pair = [[0] * (M * M) for _ in range(count - 1)]
    for _ in range(draws):
        out = getrandstr(r, cs, count)
        ii = [idx[c] for c in out]
        for i, v in enumerate(ii):
            pos[i][v] += 1
        for i in range(count - 1):
            pair[i][(ii[i] % M) * M + ii[i + 1] % M] += 1
    rec.ev(draws)
    e = draws / N
    for i in range(count):
        x = sum((c - e) ** 2 / e for c in pos[i])
        if x > chi2_crit(N - 1):
            rec.fail("C06/getrandstr/stat-position", f"getrandstr: position {i} not uniform over {N} symbols (chi2={x:.0f})", "stat_str", case, x, chi2_crit(N - 1), soft=soft)
            return
    if N % M == 0:
        e = draws / (M * M)
        for i in range(count - 1):
            x = sum((c - e) ** 2 / e for c in pair[i])
            if x > chi2_crit(M * M - 1):
                rec.fail("C06/getrandstr/stat-adjacent", f"getrandstr: positions {i},{i + 1} not independent (chi2={x:.0f})", "stat_str", case, x, chi2_crit(M * M - 1), soft=soft)
                return


ORACLES = {
    "exhaustive_bytes": o_exh_bytes, "linear_bytes": o_linear_bytes, "exhaustive_str": o_exh_str, "pairs_str": o_pairs_str,
    "hasher_salt": o_hasher_salt, "totp_key": o_totp_key, "genword": o_genword, "context_salt": o_context_salt,
    "stat_bytes": o_stat_bytes, "stat_str": o_stat_str,
}


# ---- tasks -------------------------------------------------------------------------------------------
def t_exh_bytes(rec, seed, tier, n, lo=None, hi=None):
    case = {"n": n}
    if lo is not None:
        case.update(lo=lo, hi=hi)
    rec.sample("exhaustive_bytes", case)
    o_exh_bytes(rec, case, soft=True)


def t_linear_bytes(rec, seed, tier):
    r = random.Random(seed)
    for n in list(range(2, 65)) + [100, 256, 1024]:
        pairs = [[r.getrandbits(8 * n), r.getrandbits(8 * n)] for _ in range(12)]
        pairs += [[1 << r.randrange(8 * n), (1 << r.randrange(8 * n)) | 1] for _ in range(6)]
        rec.ev()
        rec.nt("linear", n)
        if n in (2, 16, 64):
            rec.sample("linear_bytes", {"n": n, "pairs": pairs[:2]})
        o_linear_bytes(rec, {"n": n, "pairs": pairs}, soft=True)


def t_exh_str(rec, seed, tier, shard=0, nshards=1):
    limit = 200000 if tier == "quick" else 20000000
    work = []
    for cs in ALPHABETS + [a.encode("latin-1") for a in ALPHABETS if a.isascii()]:
        N = len(cs)
        for count in range(0, 20):
            if N**count > limit:
                break
            work.append((N**count, len(work), cs, count))
    # biggest enumerations first, dealt round-robin to the shards
    work.sort(key=lambda w: (-w[0], w[1]))
    for k, (_, _, cs, count) in enumerate(work):
        if k % nshards != shard:
            continue
        case = {"charset": cs, "count": count, "limit": limit}
        if k % 7 == 0:
            rec.sample("exhaustive_str", {"charset_size": len(cs), "count": count, "type": type(cs).__name__})
        o_exh_str(rec, case, soft=True)
    if shard:
        return
    for cs in ("x", b"x"):
        o_exh_str(rec, {"charset": cs, "count": 5}, soft=True)
    st, r = call(lambda: _gr()[1](ScriptedRandom([]), "", 3))
    if not (st == "err" and isinstance(r, ValueError)):
        rec.fail("C06/getrandstr/empty-alphabet", "getrandstr with empty alphabet did not raise ValueError", "exhaustive_str", {"charset": "", "count": 3}, repr(r), "ValueError", soft=True)


def t_pairs_str(rec, seed, tier):
    from hypothesis import strategies as st

    n = 400 if tier == "quick" else 4000

    @st.composite
    def cases(draw):
        cs = draw(st.sampled_from(ALPHABETS))
        if cs.isascii() and draw(st.booleans()):
            cs = cs.encode()
        count = draw(st.one_of(st.integers(2, 40), st.sampled_from([8, 16, 22, 64])))
        space = len(cs) ** count
        vals = draw(st.lists(st.integers(0, space - 1), min_size=2, max_size=8))
        return {"charset": cs, "count": count, "values": vals}

    def body(case):
        rec.ev()
        rec.nt("pairs", repr(case["charset"]), case["count"], tuple(case["values"]))
        rec.count(f"pairs_str:N={len(case['charset'])}")
        rec.sample("pairs_str", case)
        o_pairs_str(rec, case)

    hyp_campaign(rec, body, cases(), n, seed)


def t_generators(rec, seed, tier):
    from hypothesis import strategies as st

    n = 300 if tier == "quick" else 3000
    salted = [nm for nm, f in table.T.items() if f.salt and f.salt[0] != "int" and table.available(nm) and nm not in ("atlassian_pbkdf2_sha1", "msdcc2")]
    big = st.integers(0, 1 << 600)

    @st.composite
    def cases(draw):
        kind = draw(st.sampled_from(["salt", "salt", "salt", "totp", "word", "phrase", "secret"]))
        scripts = [draw(st.lists(big, min_size=1, max_size=1)), draw(st.lists(big, min_size=1, max_size=1))]
        if kind == "salt":
            name = draw(st.sampled_from(salted))
            f = table.T[name]
            lo, hi = f.salt[1], f.salt[2]
            h = table.handler(name)
            size = None
            if lo != hi and "salt_size" in h.setting_kwds and draw(st.booleans()):
                size = draw(st.integers(lo, min(hi, 48)))
            return {"kind": kind, "name": name, "salt_size": size, "scripts": scripts}
        if kind == "totp":
            return {"kind": kind, "size": draw(st.one_of(st.none(), st.integers(10, 20))), "scripts": scripts}
        longs = [draw(st.lists(big, min_size=40, max_size=40)) for _ in range(2)]
        if kind == "word":
            c = {"kind": kind, "scripts": scripts}
            which = draw(st.integers(0, 2))
            if which == 0:
                c["charset"] = draw(st.sampled_from(["ascii_62", "ascii_50", "ascii_72", "hex"]))
            elif which == 1:
                c["chars"] = draw(st.sampled_from(["ab", "abcdefgh", "0123456789", "éxyz€"]))
        elif kind == "phrase":
            c = {"kind": kind, "scripts": longs}
            which = draw(st.integers(0, 2))
            if which == 0:
                c["wordset"] = draw(st.sampled_from(["eff_long", "eff_short", "eff_prefixed", "bip39"]))
            elif which == 1:
                c["words"] = draw(st.sampled_from([["a", "b"], ["alpha", "beta", "gamma", "delta", "eps"], ["x y", "z"]]))
            c["sep"] = draw(st.sampled_from([None, " ", "-", "", "::"]))
        else:
            return {"kind": kind, "scripts": scripts, "entropy": draw(st.one_of(st.sampled_from([1, 48, 64, 100, 192, 256]), st.integers(1, 400))),
                    "charset": draw(st.sampled_from([None, "ab", "abc", "0123456789", "0123456789abcdef", table.H64, table.DJANGO_SALT, ALPHABETS[6]]))}
        e = draw(st.sampled_from([None, "weak", "strong", "secure", 1, 10, 47.5, 80, 128]))
        ln = draw(st.sampled_from([None, None, 1, 4, 12, 30]))
        c["entropy"], c["length"] = e, ln
        return c

    def body(case):
        rec.ev()
        kind = case["kind"]
        rec.count(f"generator:{kind}")
        rec.nt(sorted((k, repr(v)) for k, v in case.items()))
        rec.sample(f"generator:{kind}", {k: (v if k != "scripts" else "<2 scripted draws>") for k, v in case.items()})
        if kind == "salt":
            o_hasher_salt(rec, case)
        elif kind == "totp":
            o_totp_key(rec, case)
        else:
            o_genword(rec, case)

    hyp_campaign(rec, body, cases(), n, seed, shrink_budget=20)


def t_all_salts(rec, seed, tier):
    """every salted hasher x every salt size (enumerated)"""
    r = random.Random(seed)
    for name, f in sorted(table.T.items()):
        if not f.salt or f.salt[0] == "int" or not table.available(name) or name in ("atlassian_pbkdf2_sha1", "msdcc2"):
            continue
        h = table.handler(name)
        lo, hi = f.salt[1], f.salt[2]
        sizes = [None]
        if lo != hi and "salt_size" in h.setting_kwds:
            sizes += list(range(lo, min(hi, 24) + 1))
        if "bcrypt" in name and tier == "quick":
            sizes = [None]
        for size in sizes:
            scripts = [[r.getrandbits(800)], [r.getrandbits(800)]]
            rec.ev()
            rec.nt("salt", name, size)
            o_hasher_salt(rec, {"name": name, "salt_size": size, "scripts": scripts}, soft=True)
        rec.sample("all-salts", {"name": name, "sizes": [s for s in sizes if s is not None][:3] or ["default"]})
    # every documented TOTP key size: 10 bytes up to the digest size of the algorithm (the default), both ends included
    for alg, top in (("sha1", 20), ("sha256", 32), ("sha512", 64)):
        for size in [None] + list(range(10, top + 1)):
            rec.ev()
            rec.nt("totp-size", alg, size)
            o_totp_key(rec, {"size": size, "alg": alg, "scripts": [[r.getrandbits(800)], [r.getrandbits(800)]]}, soft=True)
    # a custom alphabet / word list with repeated symbols would make the repeated symbol likelier and the entropy estimate wrong: refused
    from passlib import pwd

    for kw in ({"chars": "aab"}, {"chars": "abca"}, {"chars": "0123456789012"}, {"words": ["x", "y", "x"]}):
        rec.ev()
        fn = pwd.genword if "chars" in kw else pwd.genphrase
        st, out = call(fn, entropy=40, **kw)
        if not (st == "err" and isinstance(out, ValueError)):
            rec.fail("C06/generator/duplicate-symbols-accepted", f"{fn.__name__}({kw}) accepts an alphabet with repeated symbols (non-uniform output, overstated entropy)", "genword",
                     {"kind": "word" if "chars" in kw else "phrase", **kw, "entropy": 40, "length": None, "scripts": [[1], [2]]}, repr(out), "ValueError", soft=True)
    # django_disabled: '!' + a random suffix of the declared length over its declared alphabet
    h = table.handler("django_disabled")
    outs = [h.hash("x") for _ in range(200)]
    rec.ev(200)
    if any(len(o) != 1 + h.suffix_length or not o.startswith("!") or set(o[1:]) - set("ABCDEFGHIJKLMNOPQRSTUVWXYZabcdefghijklmnopqrstuvwxyz0123456789") for o in outs) or len(set(outs)) != 200:
        rec.fail("C06/salt-size/django_disabled", "django_disabled suffix is not `suffix_length` random alphanumerics", "hasher_salt", {"name": "django_disabled"}, outs[0], 1 + h.suffix_length, soft=True)
    rec.subrecord("salted-hashers", enumerated_sizes=True)


@oracle(PROPERTY, "libpass_salt")
def o_libpass_salt(rec, case, soft=False):
    """case: {entropy, chars, draws}: libpass salts carry at least the requested entropy (and not a character more than needed), stay inside
    the alphabet, and every position is uniform over it (chi-square at p ~ 1e-12)"""
    import secrets as pysecrets

    from libpass import _salt

    e, chars, draws = case["entropy"], case["chars"], case["draws"]
    seq = iter(case["script"]) if case.get("script") else None
    real_choice = pysecrets.choice
    if seq is not None:
        _salt.secrets = type("S", (), {"choice": staticmethod(lambda cs: cs[next(seq) % len(cs)])})  # scripted source for the exact part
    try:
        out = [_salt.generate_salt_by_entropy(e, chars) if chars is not None else _salt.generate_salt_by_entropy(e) for _ in range(draws)]
    finally:
        _salt.secrets = pysecrets
    assert pysecrets.choice is real_choice
    cs = chars if chars is not None else _salt.DEFAULT_CHARS
    bits = math.log2(len(cs))
    n = len(out[0])
    if n * bits < e - 1e-9 or (n - 1) * bits >= e + 1e-9:
        rec.fail("C06/libpass-salt/entropy", f"libpass salt of {n} characters over {len(cs)} symbols for {e} requested bits", "libpass_salt", case, n, math.ceil(e / bits), soft=soft)
        return
    if any(len(x) != n or set(x) - set(cs) for x in out):
        rec.fail("C06/libpass-salt/alphabet", "libpass salt has another length / characters outside the alphabet", "libpass_salt", case, None, None, soft=soft)
        return
    if seq is not None:
        want = "".join(cs[v % len(cs)] for v in case["script"][: n])
        if out[0] != want:
            rec.fail("C06/libpass-salt/scripted", "libpass salt is not one uniform draw per character", "libpass_salt", case, out[0], want, soft=soft)
        return
    if draws >= 200 * len(cs):
        crit = chi2_crit(len(cs) - 1)
        for pos in (0, n // 2, n - 1):
            cnt = {c: 0 for c in cs}
            for x in out:
                cnt[x[pos]] += 1
            exp = draws / len(cs)
            chi = sum((v - exp) ** 2 / exp for v in cnt.values())
            if chi > crit:
                rec.fail("C06/libpass-salt/not-uniform", f"libpass salt position {pos} is not uniform over the alphabet (chi2={chi:.1f} > {crit:.1f})", "libpass_salt", case, chi, crit, soft=soft)
                return


ORACLES["libpass_salt"] = o_libpass_salt


def t_libpass_salt(rec, seed, tier):
    r = random.Random(seed)
    for chars in (None, "ab", "0123456789", "0123456789abcdef", table.H64, "abc"):
        k = len(chars) if chars else 62
        for e in [1, 2, 7, 8, 9, 63, 64, 65, 95, 96, 100, 127, 128, 129, 160, 192, 255, 256, 257] + [r.randrange(1, 600) for _ in range(10 if tier == "quick" else 200)]:
            rec.ev()
            rec.nt("libpass-salt", k, e)
            o_libpass_salt(rec, {"entropy": e, "chars": chars, "draws": 1, "script": [r.randrange(0, 1 << 30) for _ in range(700)]}, soft=True)
        rec.ev()
        o_libpass_salt(rec, {"entropy": 24, "chars": chars, "draws": (300 if tier == "quick" else 3000) * k}, soft=True)
    # the salts the libpass PBKDF2 hashers really put into a hash
    from libpass.hashers.pbkdf2 import PBKDF2SHA256Handler, PBKDF2SHA512Handler

    from passlib.utils.binary import ab64_decode

    for cls in (PBKDF2SHA256Handler, PBKDF2SHA512Handler):
        for bits in (64, 128, 192, 256, 300):
            hs = cls(rounds=1, salt_entropy_bits=bits).hash("pw")
            salt = ab64_decode(hs.split("$")[3])
            rec.ev()
            n = len(salt)
            if n * math.log2(62) < bits or (n - 1) * math.log2(62) >= bits:
                rec.fail(f"C06/libpass-salt/hasher-entropy/{cls.__name__}", f"libpass {cls.__name__}(salt_entropy_bits={bits}) makes salts of {n} characters", "libpass_salt", {"kind": cls.__name__, "bits": bits}, n, math.ceil(bits / math.log2(62)), soft=True)
                break
        for _ in range(20):
            hs = cls(rounds=1).hash("pw")
            salt = ab64_decode(hs.split("$")[3])
            rec.ev()
            bits = len(salt) * math.log2(62)
            want = getattr(cls(rounds=1), "_salt_entropy_bits", 128)
            if bits < want or set(salt.decode()) - set("abcdefghijklmnopqrstuvwxyzABCDEFGHIJKLMNOPQRSTUVWXYZ0123456789"):
                rec.fail(f"C06/libpass-salt/hasher/{cls.__name__}", f"libpass {cls.__name__} salt carries {bits:.1f} bits, configured {want}", "libpass_salt", {"kind": cls.__name__}, repr(salt), want, soft=True)
                break
    rec.sample("libpass_salt", {"alphabets": [2, 3, 10, 16, 62, 64], "entropies": "1..600"})


def t_type7_salt(rec, seed, tier):
    """cisco_type7 offsets: every value 0..15 reachable, uniform (chi-square at p ~ 1e-12), and exact under a scripted source"""
    h = table.handler("cisco_type7")
    n = 6000 if tier == "quick" else 60000
    cnt = [0] * 16
    for _ in range(n):
        cnt[int(h.hash("x")[:2])] += 1
    rec.ev(n)
    rec.nt("type7-salt", n)
    exp = n / 16
    chi = sum((v - exp) ** 2 / exp for v in cnt)
    if min(cnt) == 0 or chi > chi2_crit(15):
        rec.fail("C06/salt-range/cisco_type7", "cisco_type7 generated offsets are not uniform over the declared range 0..15", "hasher_salt", {"name": "cisco_type7", "draws": n}, cnt, "uniform over 0..15", soft=True)
    rec.sample("type7-salt", {"draws": n, "counts": cnt})


def t_context_salt(rec, seed, tier):
    n = 0
    for scheme in ("sha256_crypt", "md5_crypt", "pbkdf2_sha256", "ldap_salted_sha1", "bcrypt", "des_crypt", "django_salted_sha1"):
        if not table.available(scheme):
            continue
        for key in (f"{scheme}__salt", "all__salt", f"admin__{scheme}__salt", "admin__all__salt", f"{scheme}.salt", "default__all__salt"):
            for how in ("ctor", "update", "load", "copy"):
                rec.ev()
                rec.nt("ctxsalt", scheme, key, how)
                o_context_salt(rec, {"scheme": scheme, "key": key, "how": how}, soft=True)
                n += 1
    rec.sample("context_salt", {"scheme": "sha256_crypt", "key": "admin__sha256_crypt__salt", "how": "update"})


def t_stat(rec, seed, tier, kind, shard):
    draws = 40000 if tier == "quick" else 600000
    if kind == "bytes":
        for n in ([4, 16], [8, 33], [5, 64], [7, 20])[shard % 4]:
            case = {"n": n, "draws": draws // (1 if n < 32 else 3), "seed": seed + n}
            rec.nt("stat", kind, n)
            rec.sample("stat_bytes", case)
            o_stat_bytes(rec, case, soft=True)
    else:
        for cs, count in ([(table.H64, 8), ("0123456789abcdef", 20)], [(table.DJANGO_SALT, 12), ("01", 32)], [(ALPHABETS[6], 6), (table.BC64, 22)], [("abc", 10), (table.H64.encode(), 16)])[shard % 4]:
            case = {"charset": cs, "count": count, "draws": draws, "seed": seed + count}
            rec.nt("stat", kind, len(cs), count)
            rec.sample("stat_str", {"charset_size": len(cs), "count": count, "draws": draws})
            o_stat_str(rec, case, soft=True)


def tasks(tier):
    ts = [{"name": "exh-bytes-1", "fn": "t_exh_bytes", "kw": {"n": 1}}]
    for lo in range(0, 65536, 8192):
        ts.append({"name": f"exh-bytes-2-{lo:05d}", "fn": "t_exh_bytes", "kw": {"n": 2, "lo": lo, "hi": lo + 8192}})
    ts.append({"name": "exh-bytes-2-full", "fn": "t_exh_bytes", "kw": {"n": 2}})
    if tier == "thorough":
        for lo in range(0, 1 << 24, 1 << 20):
            ts.append({"name": f"exh-bytes-3-{lo >> 20:02d}", "fn": "t_exh_bytes", "kw": {"n": 3, "lo": lo, "hi": lo + (1 << 20)}})
    ts += [
        {"name": "linear-bytes", "fn": "t_linear_bytes"}, {"name": "pairs-str", "fn": "t_pairs_str"},
        {"name": "generators", "fn": "t_generators"}, {"name": "all-salts", "fn": "t_all_salts"}, {"name": "context-salt", "fn": "t_context_salt"},
        {"name": "libpass-salt", "fn": "t_libpass_salt"}, {"name": "type7-salt", "fn": "t_type7_salt"},
    ]
    nsh = 1 if tier == "quick" else 24
    ts += [{"name": f"exh-str-{i:02d}", "fn": "t_exh_str", "kw": {"shard": i, "nshards": nsh}} for i in range(nsh)]
    for sh in range(4):
        ts.append({"name": f"stat-bytes-{sh}", "fn": "t_stat", "kw": {"kind": "bytes", "shard": sh}})
        ts.append({"name": f"stat-str-{sh}", "fn": "t_stat", "kw": {"kind": "str", "shard": sh}})
    return ts
