"""C02 -- every format computes the published algorithm bit for bit (differential)."""

from __future__ import annotations

from ..common import Recorder, hyp_campaign, oracle, call, short
from ..gens import table
from ..gens import strategies as S
from ..refs import formats as RF
from ..refs import third as R3

PROPERTY = "C02"
LEVEL = "exploration"
RULE = (
    "Hypothesis cases (format x password from a boundary-heavy length/content distribution x explicit salt of every "
    "allowed size x cheap cost incl. values around multiples of 42 x ident/variant/version x user/realm/encoding) plus "
    "complete length sweeps 0..130 (thorough 0..300 + 4095/4096) for md5/sha256/sha512-crypt at several rounds residues. "
    "Oracle: passlib's string == the string assembled by the independent reference in vpchk/refs (and == libxcrypt / Django "
    "where the host has them and they accept the input); the reference string verifies under passlib and the reference "
    "string of a different password does not. Non-trivial = len(password)>=1; distinct by (format, length, rounds mod 42, "
    "salt size, ident/variant)."
)
ASSUMPTIONS = [
    "reference implementations in vpchk/refs reproduce the published vectors (checked at start-up) and agree with libxcrypt/hashlib/Django",
    "a third party returning None/*0 is 'not applicable' for that case",
    "multi-backend formats are forced to the builtin backend here (bcrypt: the bcrypt package, scrypt: stdlib); C03 covers the other backends",
]
LEVEL_TEXT = (
    "Differential testing of every registered format against an independently written reference (and a third party where the "
    "host has one) over generated passwords, salts, costs and variants, with complete sweeps of the password length for the "
    "block-structured crypt formats. Agreement on the explored inputs is evidence, not proof; the generator targets the "
    "data-dependent branches (lengths around 8/16/55/64/72/96/128, rounds residues mod 42, every salt size)."
)
LEVEL_NOTE = "Trusted: vpchk/refs (self-tested against published vectors), CPython hashlib/hmac, libxcrypt, pyca bcrypt, Django, Hypothesis."
TECHNIQUE = "Hypothesis differential testing against independent reference implementations + exhaustive length sweeps"
#: thorough tier: seed-dependent tasks are repeated under this many derived seeds (run.py); the listed task functions enumerate fixed domains
THOROUGH_REPS = 1
DETERMINISTIC_FNS = ('t_des_salts',)

FORCE_BUILTIN = ["md5_crypt", "sha1_crypt", "sha256_crypt", "sha512_crypt", "des_crypt", "bsdi_crypt"]


def force_backends():
    from passlib import registry

    for n in FORCE_BUILTIN:
        registry.get_crypt_handler(n).set_backend("builtin")
    if table.available("bcrypt"):
        registry.get_crypt_handler("bcrypt").set_backend("bcrypt")


def selftest():
    missing, extra = table.check_complete()
    if missing or extra:
        from ..common import HarnessError

        raise HarnessError(f"format table out of date: missing={missing} extra={extra}")


def _disp(name, settings, ctx, secret):
    return {"name": name, "settings": settings, "ctx": ctx, "secret": secret}


def other_secret(secret):
    return ("Zq" if isinstance(secret, str) else b"Zq") + secret


@oracle(PROPERTY, "differential")
def o_diff(rec: Recorder, case, soft=False):
    name, settings, ctx, secret = case["name"], case["settings"], case["ctx"], case["secret"]
    h = table.handler(name)
    f = table.T[name]
    # settings that using() cannot express (sun_md5 bare salt, even bsdi rounds) are exercised in the
    # verify direction only: the reference-made string must verify
    verify_only = bool(case.get("verify_only") or settings.get("bare_salt"))
    using = {k: v for k, v in settings.items() if k != "bare_salt"}
    custom = h.using(**using) if using and not verify_only else h
    got = None if verify_only else custom.hash(secret, **ctx)
    ns = RF.norm_settings(name, settings)
    try:
        ref = RF.ref_hash(name, secret, ns, ctx)
    except (UnicodeError, ValueError):
        ref = None
    third = None
    if not ctx.get("encoding") and f.secret != "lm":
        raw = secret.encode("utf-8") if isinstance(secret, str) else secret
        third = R3.third_party(name, raw, ns, ctx)
    if ref is None and third is None:
        rec.count("reference_not_applicable")
        return
    if ref is not None and third is not None and ref != third:
        rec.count("reference_dispute")
        rec.sample("reference_dispute", {"case": case, "ref": ref, "third": third, "passlib": got})
        return
    exp = ref if ref is not None else third
    rec.count("compared_ref" if ref is not None else "compared_third_only")
    if third is not None:
        rec.count("compared_third")
    if verify_only:
        rec.count("verify_only_case")
    if got != exp and not verify_only:
        rec.fail(f"C02/mismatch/{name}", f"{name}: hash differs from the independent implementation", "differential", case, got, exp, soft=soft)
        return
    # reverse direction: reference strings verify, and only for that password
    if not f.disabled:
        ok = custom.verify(secret, exp, **ctx)
        if ok is not True:
            rec.fail(f"C02/ref-not-verified/{name}", f"{name}: reference hash of the password does not verify", "differential", case, ok, True, soft=soft)
        o2 = other_secret(secret)
        try:
            ref2 = RF.ref_hash(name, o2, ns, ctx)
        except (UnicodeError, ValueError):
            ref2 = None
        try:
            same_key = f.key(o2, ns, ctx) == f.key(secret, ns, ctx)
        except (UnicodeError, ValueError):
            same_key = True
        if ref2 is not None and ref2 != exp and not same_key:
            st, r = call(custom.verify, secret, ref2, **ctx)
            if st == "ok" and r is not False:
                rec.fail(f"C02/foreign-verified/{name}", f"{name}: reference hash of a different password verifies", "differential", case, r, False, soft=soft)
            elif st == "err" and not isinstance(r, ValueError):
                raise r


@oracle(PROPERTY, "django_direction")
def o_django(rec: Recorder, case, soft=False):
    """Django-made strings verify under passlib's django_* hashers and vice versa"""
    name, settings, secret = case["name"], case["settings"], case["secret"]
    ns = RF.norm_settings(name, settings)
    dj = R3.django_hash(name, secret, ns)
    if dj is None:
        rec.count("django_not_applicable")
        return
    h = table.handler(name)
    if h.verify(secret, dj) is not True:
        rec.fail(f"C02/django-made-rejected/{name}", f"{name}: hash made by Django's own hasher does not verify", "django_direction", case, False, True, soft=soft)
    f = table.T[name]
    if len(secret) <= 4090 and f.key(other_secret(secret), ns, {}) != f.key(secret, ns, {}) and h.verify(other_secret(secret), dj) is not False:
        rec.fail(f"C02/django-made-overaccept/{name}", f"{name}: Django-made hash verifies a different password", "django_direction", case, True, False, soft=soft)
    mine = h.using(**settings).hash(secret)
    v = R3.django_verify(name, secret, mine)
    if v is False:
        rec.fail(f"C02/django-rejects/{name}", f"{name}: Django's own hasher rejects passlib's hash", "django_direction", case, mine, "verifies under Django", soft=soft)
    rec.count("django_roundtrip")


ORACLES = {"differential": o_diff, "django_direction": o_django}


def _fingerprint(rec, name, settings, secret):
    n = len(secret)
    if n >= 1:
        r = settings.get("rounds")
        salt = settings.get("salt")
        rec.nt(name, n, None if r is None else r % 42, None if salt is None or isinstance(salt, int) else len(salt),
               settings.get("ident"), settings.get("variant"), settings.get("version"))


def t_format(rec, seed, tier, name):
    from hypothesis import strategies as st

    force_backends()
    f = table.T[name]
    if f.disabled or not table.available(name):
        rec.count(f"skipped_unavailable:{name}")
        rec.ev(0)
        return
    n = {"quick": 100, "thorough": 1000}[tier]
    slow = {"atlassian_pbkdf2_sha1", "msdcc2", "sun_md5_crypt", "bsdi_crypt", "ldap_bsdi_crypt"}
    if name in slow:
        n = n // 4
    big = tier == "thorough"

    @st.composite
    def cases(draw):
        ctx = draw(S.contexts(name))
        secret = draw(S.secrets(f, big=big))
        if isinstance(secret, str) and not S.encodable(secret, ctx, name):
            ctx.pop("encoding", None)
            if name == "lmhash":
                secret = "".join(ch for ch in secret if ord(ch) < 128)
        as_text = draw(st.booleans())
        if isinstance(secret, bytes) and as_text:
            try:
                secret = secret.decode("utf-8")
            except UnicodeDecodeError:
                pass
        case = _disp(name, draw(S.settings(name, allow_bare=True)), ctx, secret)
        if f.base == "bsdi_crypt" and draw(st.integers(0, 3)) == 0:
            case["settings"]["rounds"] = max(2, case["settings"]["rounds"] - 1)  # even: not reachable through using()
            case["verify_only"] = True
        return case

    def body(case):
        rec.ev()
        secret = case["secret"]
        rec.count(f"{name}:{'text' if isinstance(secret, str) else 'bytes'}")
        _fingerprint(rec, name, case["settings"], secret)
        if len(secret) > 2:
            rec.sample(name, case)
        o_diff(rec, case)
        if name.startswith("django_") and isinstance(secret, bytes):
            o_django(rec, case)

    hyp_campaign(rec, body, cases(), n, seed)


def t_sweep(rec, seed, tier, name, rounds, lo, hi):
    """every password length in [lo,hi) for a block-structured crypt format"""
    force_backends()
    f = table.T[name]
    n = 0
    for ln in range(lo, hi):
        for kind in ("ascii", "high"):
            secret = bytes((0x61 + (i * 7) % 26) if kind == "ascii" else (0x80 | ((i * 37 + ln) & 0x7F)) for i in range(ln))
            saltlen = f.salt[2] if ln % 2 else max(f.salt[1], f.salt[2] // 2)
            salt = (table.H64 * 2)[ln % 60 : ln % 60 + saltlen]
            settings = {"salt": salt}
            if f.rounds:
                settings["rounds"] = rounds
            case = _disp(name, settings, {}, secret)
            o_diff(rec, case, soft=True)
            n += 1
            _fingerprint(rec, name, settings, secret)
    rec.ev(n)
    rec.sample(f"sweep:{name}", {"name": name, "rounds": rounds, "lengths": [lo, hi - 1]})
    rec.subrecord(f"length-sweep:{name}", exhaustive=True, rounds=rounds)


def fixed_settings(name, i):
    """deterministic cheap settings for sweeps (i varies salt size / ident choice)"""
    f = table.T[name]
    st = {}
    if f.rounds:
        lo = f.rounds[0]
        st["rounds"] = (lo | 1) if f.base == "bsdi_crypt" else lo
    for k, vals in f.extra.items():
        v = vals[i % len(vals)]
        if v is not None:
            st[k] = v
    if name == "bcrypt_sha256" and st.get("version", 2) == 2:
        st["ident"] = "2b"
    st.pop("bare_salt", None)
    if f.salt:
        kind, lo, hi = f.salt
        if kind == "int":
            st["salt"] = i % 16
        else:
            n = lo + (i % (max(lo, min(hi, 16)) - lo + 1))
            if kind == "bytes":
                st["salt"] = bytes((i * 7 + k * 13) & 255 for k in range(n))
            else:
                alpha = {"h64": table.H64, "bc64": table.BC64, "django": table.DJANGO_SALT, "hexu": table.HEXU}[kind]
                if name == "scrypt" and st.get("ident") == "$7$":
                    pass
                txt = "".join(alpha[(i * 5 + k * 11) % len(alpha)] for k in range(n))
                if kind == "bc64":
                    txt = txt[:-1] + ".Oeu"[i % 4]
                st["salt"] = txt
        if name == "scrypt" and st.get("ident") == "$7$":
            st["salt"] = "".join(table.H64[(i + k) % 64] for k in range(i % 12)).encode()
    return st


def fixed_ctx(name, i):
    f = table.T[name]
    c = {}
    users = ["u", "ab", "abc", "abcd", "admin", "Üser"]
    if "user" in f.ctx:
        c["user"] = users[i % len(users)] if name not in ("cisco_pix", "cisco_asa") else (["", "a", "ab", "abc", "abcd", "abcde"][i % 6])
    if "realm" in f.ctx:
        c["realm"] = "realm"
    return c


def t_len_sweep(rec, seed, tier, name, hi):
    """every password length 0..hi-1 (x 6 user/ident variants for context formats) for one format"""
    force_backends()
    f = table.T[name]
    if f.disabled or not table.available(name):
        rec.count(f"skipped_unavailable:{name}")
        return
    n = 0
    top = min(hi, (f.maxlen + 1) if f.maxlen else hi)
    reps = 6 if f.ctx or f.extra else 2
    for ln in range(top):
        for j in range(reps):
            i = ln * reps + j
            if f.secret in ("bytes", "nonul"):
                secret = bytes(0x61 + (k * 7 + j) % 26 if (ln + j) % 3 else 0x80 | ((k * 37 + ln) & 0x7F) for k in range(ln))
            else:
                secret = "".join(chr(0x61 + (k * 7 + j) % 26) if (k + j) % 5 else "é" for k in range(ln))
                if f.secret == "ldap_plain" and not secret:
                    continue
            settings = fixed_settings(name, i)
            ctx = fixed_ctx(name, i)
            o_diff(rec, _disp(name, settings, ctx, secret), soft=True)
            _fingerprint(rec, name, settings, secret)
            n += 1
    rec.ev(n)
    rec.sample(f"len-sweep:{name}", {"name": name, "lengths": [0, top - 1], "variants_per_length": reps})
    rec.subrecord(f"len-sweep:{name}", exhaustive_lengths=[0, top - 1])


def t_des_salts(rec, seed, tier, lo, hi):
    """all 4096 des_crypt salts (thorough) x 3 passwords"""
    force_backends()
    n = 0
    for v in range(lo, hi):
        salt = table.H64[v & 63] + table.H64[v >> 6]
        for secret in (b"password", b"\xc3\xa9\x80zz", b"a"):
            o_diff(rec, _disp("des_crypt", {"salt": salt}, {}, secret), soft=True)
            n += 1
    rec.ev(n)
    rec.nt_bulk(n)
    rec.subrecord("des-salts", exhaustive=(hi - lo == 4096), lo=lo, hi=hi)
    rec.sample("des-salts", {"salts": [lo, hi - 1], "passwords": 3})


def tasks(tier):
    ts = []
    for name in sorted(table.T):
        ts.append({"name": f"fmt-{name}", "fn": "t_format", "kw": {"name": name}})
    hi = 131 if tier == "quick" else 301
    sweep_rounds = {"quick": [1000, 1001], "thorough": [1000, 1001, 1041, 1042, 1043, 1084, 1090]}[tier]
    for name in ("sha256_crypt", "sha512_crypt"):
        for r in sweep_rounds:
            for lo in range(0, hi, 66 if tier == "quick" else 50):
                ts.append({"name": f"sweep-{name}-{r}-{lo:03d}", "fn": "t_sweep", "kw": {"name": name, "rounds": r, "lo": lo, "hi": min(hi, lo + (66 if tier == "quick" else 50))}})
    for name in ("md5_crypt", "apr_md5_crypt", "des_crypt", "crypt16"):
        ts.append({"name": f"sweep-{name}", "fn": "t_sweep", "kw": {"name": name, "rounds": None, "lo": 0, "hi": hi if "md5" in name else 40}})
    slow = {"atlassian_pbkdf2_sha1": 12, "msdcc2": 24, "sun_md5_crypt": 24, "bsdi_crypt": 40, "ldap_bsdi_crypt": 24, "bigcrypt": 40}
    for name in sorted(table.T):
        if name in ("sha256_crypt", "sha512_crypt", "md5_crypt", "apr_md5_crypt", "des_crypt", "crypt16"):
            continue
        top = slow.get(name, 80 if tier == "quick" else 140)
        ts.append({"name": f"lens-{name}", "fn": "t_len_sweep", "kw": {"name": name, "hi": top}})
    if tier == "thorough":
        for name in ("sha256_crypt", "sha512_crypt", "md5_crypt"):
            ts.append({"name": f"sweep-{name}-4k", "fn": "t_sweep", "kw": {"name": name, "rounds": 1000, "lo": 4094, "hi": 4097}})
        for lo in range(0, 4096, 256):
            ts.append({"name": f"des-salts-{lo:04d}", "fn": "t_des_salts", "kw": {"lo": lo, "hi": lo + 256}})
    else:
        ts.append({"name": "des-salts-sample", "fn": "t_des_salts", "kw": {"lo": 0, "hi": 4096 // 16}})
    return ts
