"""C20 -- libpass hashers and classic passlib hashers understand each other."""

from __future__ import annotations

from ..common import Recorder, call, hyp_campaign, oracle
from ..gens import strategies as S
from ..gens import table
from ..refs import formats as RF

PROPERTY = "C20"
LEVEL = "exploration"
RULE = (
    "Pairs (libpass, passlib): SHA256Hasher/sha256_crypt, SHA512Hasher/sha512_crypt, PBKDF2SHA256Handler/pbkdf2_sha256, "
    "PBKDF2SHA512Handler/pbkdf2_sha512, BcryptHasher/bcrypt, BcryptSHA256Hasher/bcrypt_sha256(v2) x passwords (bcrypt <= 72 bytes, "
    "no NUL) x non-empty explicit salts (each side's alphabet/sizes) x rounds (sha-crypt 1000..1100 and 5000 incl. passlib's "
    "implicit-rounds strings; pbkdf2 1..300; bcrypt 4..5) x text/bytes; libpass CryptContext over generated lists of 1-4 hashers. "
    "Oracle: a libpass hash equals the independent reference string, verifies under libpass and under passlib; a passlib hash "
    "verifies under libpass; a wrong password is False both ways; identify() is True exactly for the own format over a bank of all "
    "six formats plus foreign strings; needs_update is False for own fresh hashes, True for other rounds and other formats; "
    "context: hash() is identified by scheme[0], verify() True for a hash of any listed scheme and False for a wrong password, "
    "needs_update(h) <=> scheme[0] does not identify h. Non-trivial = cross-API verification with len(p)>0 and non-default "
    "rounds; distinct by (pair, rounds, salt size, len(p))."
)
ASSUMPTIONS = ["vpchk/refs reference strings (self-tested)", "salts are non-empty (the property's domain); bcrypt passwords are <=72 bytes without NUL"]
LEVEL_TEXT = (
    "Seeded generated-input differential testing between the two APIs and an independent reference, with an identify() matrix over "
    "a bank of all shared formats and generated libpass contexts."
)
LEVEL_NOTE = "Trusted: vpchk/refs (self-tested on published vectors), pyca bcrypt, Hypothesis."
TECHNIQUE = "Hypothesis differential testing between libpass hashers, passlib hashers and an independent reference"
#: thorough tier: seed-dependent tasks are repeated under this many derived seeds (run.py); the listed task functions enumerate fixed domains
THOROUGH_REPS = 4
DETERMINISTIC_FNS = ()
RULE += " Through the libpass context, hashes of scheme[0]'s format at another cost or made by passlib are not flagged."

PAIRS = {
    "sha256": ("SHA256Hasher", "sha256_crypt"),
    "sha512": ("SHA512Hasher", "sha512_crypt"),
    "pbkdf2-sha256": ("PBKDF2SHA256Handler", "pbkdf2_sha256"),
    "pbkdf2-sha512": ("PBKDF2SHA512Handler", "pbkdf2_sha512"),
    "bcrypt": ("BcryptHasher", "bcrypt"),
    "bcrypt-sha256": ("BcryptSHA256Hasher", "bcrypt_sha256"),
}


def lib_hasher(pair, rounds):
    from .c01 import libpass_hasher

    return libpass_hasher(PAIRS[pair][0], rounds)


def lib_hash(pair, h, secret, salt, rounds):
    if pair.startswith("sha"):
        return h.hash(secret, salt=salt)
    if pair.startswith("pbkdf2"):
        return h.hash(secret, salt=salt)
    return h.hash(secret, salt=f"$2b${rounds:02d}${salt}".encode())


def passlib_settings(pair, salt, rounds):
    s = {"salt": salt, "rounds": rounds}
    if pair == "bcrypt":
        s["ident"] = "2b"
    if pair == "bcrypt-sha256":
        s.update(ident="2b", version=2)
    return s


@oracle(PROPERTY, "cross")
def o_cross(rec: Recorder, case, soft=False):
    """case: {pair, secret, salt, rounds, implicit?}"""
    pair, secret, salt, rounds = case["pair"], case["secret"], case["salt"], case["rounds"]
    pname = PAIRS[pair][1]
    ph = table.handler(pname)
    lh = lib_hasher(pair, rounds)
    ps = passlib_settings(pair, salt, rounds)
    wrong = ("Zq" if isinstance(secret, str) else b"Zq") + secret
    if pair == "bcrypt":
        alt = "#" if secret[-1:] in ("~", b"~") else "~"
        wrong = (secret[:-1] + (alt if isinstance(secret, str) else alt.encode())) if len(secret) else ("x" if isinstance(secret, str) else b"x")
        if len(wrong.encode() if isinstance(wrong, str) else wrong) > 72:
            wrong = wrong[:10]
    ref = RF.ref_hash(pname, secret, RF.norm_settings(pname, ps), {})
    # libpass -> everyone
    lhash = lib_hash(pair, lh, secret, salt, rounds)
    if ref is not None and lhash != ref and not (pair.startswith("sha") and rounds == 5000):
        rec.fail(f"C20/libpass-hash-differs/{pair}", f"libpass {PAIRS[pair][0]} hash differs from the independent reference", "cross", case, lhash, ref, soft=soft)
        return
    for who, fn in (("libpass", lambda p, h_: lh.verify(hash=h_, secret=p)), ("passlib", lambda p, h_: ph.verify(p, h_))):
        st, r = call(fn, secret, lhash)
        if st == "err" or r is not True:
            rec.fail(f"C20/libpass-made-rejected-by-{who}/{pair}", f"a hash made by libpass {PAIRS[pair][0]} does not verify under {who}", "cross", case, repr(r), True, soft=soft)
            return
        st, r = call(fn, wrong, lhash)
        if st == "err" or r is not False:
            rec.fail(f"C20/wrong-password-accepted-by-{who}/{pair}", f"{who} verifies a wrong password against a libpass hash", "cross", case, repr(r), False, soft=soft)
            return
    # passlib -> libpass  (incl. the implicit 5000-round sha-crypt strings, made by the reference)
    phash = ph.using(**ps).hash(secret)
    sources = [("passlib", phash)]
    if pair.startswith("sha") and rounds == 5000:
        sources.append(("implicit-rounds", RF.ref_hash(pname, secret, dict(ps, implicit_rounds=True), {})))
        sources.append(("explicit-rounds", RF.ref_hash(pname, secret, dict(ps, implicit_rounds=False), {})))
    for label, hs in sources:
        st, r = call(lambda: lh.verify(hash=hs, secret=secret))
        if st == "err" or r is not True:
            rec.fail(f"C20/passlib-made-rejected/{pair}/{label}", f"a {label} {pname} hash does not verify under libpass {PAIRS[pair][0]}", "cross", case, repr(r), True, soft=soft)
            return
        if lh.verify(hash=hs.encode("ascii"), secret=wrong) is not False:
            rec.fail(f"C20/wrong-password-accepted-by-libpass/{pair}", "libpass verifies a wrong password against a passlib hash", "cross", case, True, False, soft=soft)
            return
        # verification must not depend on the cost the verifying hasher is configured with
        other = lib_hasher(pair, 1234 if pair.startswith("sha") else (7 if pair.startswith("pbkdf2") else (5 if rounds == 4 else 4)))
        st, r = call(lambda: other.verify(hash=hs, secret=secret))
        if st == "err" or r is not True:
            rec.fail(f"C20/verify-depends-on-configured-cost/{pair}/{label}", f"a {label} {pname} hash verifies under a libpass hasher only if it is configured with the same cost", "cross", case, repr(r), True, soft=soft)
            return
        if lh.identify(hs) is not True:
            rec.fail(f"C20/identify-own-format/{pair}/{label}", f"libpass {PAIRS[pair][0]} does not identify a {label} hash of its format", "cross", case, False, True, soft=soft)
            return
        # same format, same cost (the implicit sha-crypt form means 5000 rounds): nothing to update
        if lh.needs_update(hs) is not False:
            rec.fail(f"C20/needs-update-same-cost/{pair}/{label}", f"libpass needs_update() is True for a {label} hash of the hasher's own format and cost", "cross", case, True, False, soft=soft)
            return
    # needs_update
    if lh.needs_update(lhash) is not False:
        rec.fail(f"C20/needs-update-own/{pair}", "libpass needs_update() is True for its own fresh hash", "cross", case, True, False, soft=soft)
        return
    other_rounds = rounds + 1 if not pair.startswith("bcrypt") else (5 if rounds == 4 else 4)
    if other_rounds == 5000 or (pair.startswith("sha") and rounds == 5000):
        other_rounds = 1234
    oh = lib_hasher(pair, other_rounds)
    if oh.needs_update(lhash) is not True:
        rec.fail(f"C20/needs-update-other-cost/{pair}", "libpass needs_update() is False for a hash of another cost", "cross", case, False, True, soft=soft)
        return
    # ... in both directions: a hash that is cheaper and a hash that is costlier than the hasher's configured cost
    for label, hs_other in (("fresh hash of the other hasher", lib_hash(pair, oh, secret, salt, other_rounds)), ("passlib hash at the other cost", ph.using(**passlib_settings(pair, salt, other_rounds)).hash(secret))):
        if lh.needs_update(hs_other) is not True:
            rec.fail(f"C20/needs-update-other-cost/{pair}", f"libpass needs_update() is False for a hash of another cost ({label}: {other_rounds} vs configured {rounds})", "cross", case, False, True, soft=soft)
            return


def bank():
    from passlib import hash as ph

    out = {}
    out["sha256"] = [ph.sha256_crypt.using(rounds=1000, salt="abcd").hash("pw"), RF.ref_hash("sha256_crypt", b"pw", {"salt": "ab", "rounds": 5000}, {})]
    out["sha512"] = [ph.sha512_crypt.using(rounds=1000, salt="abcd").hash("pw"), RF.ref_hash("sha512_crypt", b"pw", {"salt": "ab", "rounds": 5000}, {})]
    out["pbkdf2-sha256"] = [ph.pbkdf2_sha256.using(rounds=3, salt=b"salt").hash("pw")]
    out["pbkdf2-sha512"] = [ph.pbkdf2_sha512.using(rounds=3, salt=b"salt").hash("pw")]
    out["bcrypt"] = [ph.bcrypt.using(rounds=4, ident=i, salt="abcdefghijklmnopqrstuu").hash("pw") for i in ("2a", "2b", "2y")]
    out["bcrypt-sha256"] = [ph.bcrypt_sha256.using(rounds=4).hash("pw")]
    out["foreign"] = [ph.md5_crypt.hash("pw"), ph.pbkdf2_sha1.using(rounds=2).hash("pw"), ph.sha1_crypt.using(rounds=2).hash("pw"), ph.bcrypt_sha256.using(rounds=4, version=1).hash("pw"),
                      "", "$", "$5$", "$6$rounds=1000$", "$2b$04$", "plaintext", "$pbkdf2-sha256$3$c2FsdA", "$argon2id$v=19$m=8,t=1,p=1$c29tZXNhbHQ$aGFzaGhhc2hoYXNo", "{SSHA}abcd"]
    return out


@oracle(PROPERTY, "identify_matrix")
def o_identify(rec: Recorder, case, soft=False):
    """case: {pair}: the libpass hasher identifies exactly its own format across the bank"""
    pair = case["pair"]
    lh = lib_hasher(pair, 1000 if pair.startswith("sha") else 4)
    for kind, texts in bank().items():
        for t in texts:
            for form in (t, t.encode("utf-8")):
                st, r = call(lh.identify, form)
                want = kind == pair
                if st == "err" or r is not want:
                    rec.fail(f"C20/identify-matrix/{pair}/{kind}", f"libpass {PAIRS[pair][0]}.identify() is {r!r} for a {kind} string", "identify_matrix", dict(case, text=t), repr(r), want, soft=soft)
                    return
                rec.ev()
                if kind != pair:
                    st, r = call(lh.needs_update, form)
                    if st == "err" or r is not True:
                        rec.fail(f"C20/needs-update-foreign/{pair}/{kind}", "libpass needs_update() is not True for a hash of another format", "identify_matrix", dict(case, text=t), repr(r), True, soft=soft)
                        return
                    st, r = call(lambda: lh.verify(hash=form, secret="pw"))
                    if st == "err" or r is not False:
                        rec.fail(f"C20/verify-foreign/{pair}/{kind}", "libpass verify() of a foreign-format string is not False", "identify_matrix", dict(case, text=t), repr(r), False, soft=soft)
                        return


@oracle(PROPERTY, "context")
def o_context(rec: Recorder, case, soft=False):
    """case: {schemes:[pair...], secret}"""
    from libpass.context import CryptContext

    schemes, secret = case["schemes"], case["secret"]
    hashers = [lib_hasher(p, 1000 if p.startswith("sha") else (2 if p.startswith("pbkdf2") else 4)) for p in schemes]
    ctx = CryptContext(schemes=hashers)
    h = ctx.hash(secret)
    if hashers[0].identify(h) is not True:
        rec.fail("C20/context/hash-not-first-scheme", "libpass CryptContext.hash() is not in the first scheme's format", "context", case, h, schemes[0], soft=soft)
        return
    if ctx.verify(secret, h) is not True or ctx.verify(secret + "x", h) is not False:
        rec.fail("C20/context/own-hash", "libpass CryptContext does not verify its own hash (or accepts a wrong password)", "context", case, h, None, soft=soft)
        return
    if ctx.needs_update(h) is not False:
        rec.fail("C20/context/needs-update-own", "libpass CryptContext.needs_update() is True for its own fresh hash", "context", case, True, False, soft=soft)
        return
    for i, hasher in enumerate(hashers):
        hi = hasher.hash(secret)
        if ctx.verify(secret, hi) is not True:
            rec.fail("C20/context/verify-any-scheme", "libpass CryptContext.verify() rejects a hash of one of its schemes", "context", dict(case, index=i), hi, True, soft=soft)
            return
        if ctx.verify("wrong" + secret, hi) is not False:
            rec.fail("C20/context/wrong-password", "libpass CryptContext.verify() accepts a wrong password", "context", dict(case, index=i), hi, False, soft=soft)
            return
        want = hashers[0].identify(hi) is not True
        if ctx.needs_update(hi) is not want:
            rec.fail("C20/context/needs-update", "libpass CryptContext.needs_update(h) != (first scheme does not identify h)", "context", dict(case, index=i), ctx.needs_update(hi), want, soft=soft)
            return
    # hashes in the first scheme's format but of another cost / made by the other API: "asks for an update exactly for hashes that are
    # not in the first scheme's format"
    p0 = schemes[0]
    other_cost = 1500 if p0.startswith("sha") else (3 if p0.startswith("pbkdf2") else 5)
    same_format = [("libpass-other-cost", lib_hasher(p0, other_cost).hash(secret))]
    ph = table.handler(PAIRS[p0][1])
    same_format.append(("passlib-other-cost", ph.using(rounds=other_cost, **({"ident": "2b"} if p0 == "bcrypt" else {})).hash(secret)))
    if p0.startswith("sha"):
        same_format.append(("implicit-5000", ph.using(rounds=5000).hash(secret)))
    for label, hs in same_format:
        if hashers[0].identify(hs) is not True:
            continue  # judged by the identify matrix
        if ctx.needs_update(hs) is not False:
            rec.fail("C20/context/needs-update-same-format", f"libpass CryptContext.needs_update() is True for a hash in the first scheme's format ({label})", "context", dict(case, which=label), True, False, soft=soft)
            return
        if ctx.verify(secret, hs) is not True:
            rec.fail("C20/context/verify-same-format", f"libpass CryptContext.verify() rejects a hash in the first scheme's format ({label})", "context", dict(case, which=label), False, True, soft=soft)
            return
    for foreign in ("$1$abc$BaJRFlsP2lXZkHnVZ/ySe0", "", "notahash"):
        if ctx.verify(secret, foreign) is not False or ctx.needs_update(foreign) is not True:
            rec.fail("C20/context/foreign", "libpass CryptContext verifies / does not flag a foreign string", "context", dict(case, foreign=foreign), None, None, soft=soft)
            return


ORACLES = {"cross": o_cross, "identify_matrix": o_identify, "context": o_context}


def t_pair(rec, seed, tier, pair):
    from hypothesis import strategies as st

    if pair.startswith("bcrypt") and not table.available("bcrypt"):
        rec.count("skipped_unavailable:bcrypt")
        return
    n = {"quick": 150, "thorough": 3000}[tier]
    if pair.startswith("bcrypt"):
        n //= 3
    # sha-crypt and bcrypt are crypt()-compatible formats: NUL is outside their password domain (C05)
    f = table.Fmt("x", secret="nonul" if pair in ("bcrypt", "sha256", "sha512") else "bytes", maxlen=72 if pair == "bcrypt" else None)

    @st.composite
    def cases(draw):
        secret = draw(S.secrets(f))
        if draw(st.booleans()):
            try:
                secret = secret.decode("utf-8")
            except UnicodeDecodeError:
                pass
        if pair.startswith("sha"):
            salt = draw(S.salts(("h64", 1, 16)))
            rounds = draw(st.one_of(st.integers(1000, 1100), st.sampled_from([1000, 5000, 5000, 1042, 1043])))
        elif pair.startswith("pbkdf2"):
            salt = draw(S.salts(("bytes", 1, 40)))
            rounds = draw(st.one_of(st.integers(1, 300), st.sampled_from([1, 2])))
        else:
            salt = draw(S.salts(("bc64", 22, 22)))
            rounds = draw(st.sampled_from([4, 4, 4, 5]))
        return {"pair": pair, "secret": secret, "salt": salt, "rounds": rounds}

    def body(case):
        rec.ev()
        if len(case["secret"]) > 0 and case["rounds"] not in (5000, 12, 600000, 210000, 535000):
            rec.nt(pair, case["rounds"], len(case["salt"]), len(case["secret"]), isinstance(case["secret"], str))
        rec.count(f"cross:{pair}:{'implicit-candidate' if case['rounds'] == 5000 else 'explicit'}")
        if 2 < len(case["secret"]) < 50:
            rec.sample(f"cross:{pair}", case)
        o_cross(rec, case)

    hyp_campaign(rec, body, cases(), n, seed, shrink_budget=15)


def t_identify(rec, seed, tier):
    for pair in PAIRS:
        if pair.startswith("bcrypt") and not table.available("bcrypt"):
            continue
        rec.nt("identify", pair)
        o_identify(rec, {"pair": pair}, soft=True)
    rec.sample("identify-matrix", {"pairs": list(PAIRS), "bank_kinds": list(bank())})


def t_context(rec, seed, tier):
    from hypothesis import strategies as st

    n = {"quick": 500, "thorough": 3000}[tier]
    pairs = [p for p in PAIRS if not p.startswith("bcrypt") or table.available("bcrypt")]
    cases = st.fixed_dictionaries({"schemes": st.lists(st.sampled_from(pairs), min_size=1, max_size=4), "secret": st.sampled_from(["pw", "pässword", "", "x" * 60])})

    def body(case):
        rec.ev()
        if len(case["schemes"]) >= 2:
            rec.nt("ctx", tuple(case["schemes"]), case["secret"])
        rec.count(f"context:{len(case['schemes'])}-schemes")
        rec.sample("context", case)
        o_context(rec, case)

    hyp_campaign(rec, body, cases, n, seed, shrink_budget=15)


def tasks(tier):
    ts = [{"name": f"pair-{p}", "fn": "t_pair", "kw": {"pair": p}} for p in PAIRS]
    ts += [{"name": "identify-matrix", "fn": "t_identify"}, {"name": "context", "fn": "t_context"}]
    return ts
