"""C13 -- one-time codes follow RFC 4226 / RFC 6238."""

from __future__ import annotations

import base64
import datetime

from ..common import Recorder, call, hyp_campaign, oracle
from ..refs import hotp as R

PROPERTY = "C13"
LEVEL = "exploration"
RULE = (
    "Hypothesis cases: key 1..64 raw bytes x alg in {sha1, sha256, sha512} x digits 6..10 x period 1..3600 (boundary heavy) x "
    "time 0..2^40 incl. k*period-1, k*period, k*period+1, floats, naive and tz-aware datetimes (fixed offsets +-14h) x key text "
    "forms (base32 / hex / raw; lower case, spaces, dashes, '=' padding, typo 0/8). Oracle: own RFC 4226 HOTP over stdlib hmac: "
    "token == zero-padded str(dt(HMAC(key, be64(t//period))) mod 10^digits), len == digits, decimal; counter == t//period; "
    "start_time/expire_time == counter*period / (counter+1)*period; datetimes == their POSIX timestamp; every key text form gives "
    "the same .key and hex_key/base32_key/pretty_key decode back to it. A second task searches counters for codes with a leading "
    "zero so that zero padding is exercised for every digit count. Non-trivial = token with a leading zero, or digits in {9,10}, "
    "or a time on a period boundary; distinct by (alg, digits, period class, time class, key length)."
)
ASSUMPTIONS = ["stdlib hmac/hashlib are correct", "vpchk/refs/hotp.py reproduces the RFC 4226 appendix D and RFC 6238 appendix B vectors (checked at start-up)"]
LEVEL_TEXT = (
    "Seeded generated-input differential testing of TOTP.generate against an independent RFC 4226/6238 implementation over "
    "keys, algorithms, digit counts, periods and times aimed at period boundaries and leading-zero codes, plus equivalence of all "
    "documented key text forms."
)
LEVEL_NOTE = "Trusted: CPython hmac/hashlib/base64/datetime, the 10-line reference in vpchk/refs/hotp.py, Hypothesis."
TECHNIQUE = "Hypothesis differential testing against an independent RFC 4226/6238 reference"
#: thorough tier: seed-dependent tasks are repeated under this many derived seeds (run.py); the listed task functions enumerate fixed domains
THOROUGH_REPS = 2
DETERMINISTIC_FNS = ('t_leading_zero',)


def selftest():
    R.selftest()


def _time_value(case):
    t = case["time"]
    kind = case.get("time_kind", "int")
    if kind == "float":
        return float(t) + case.get("frac", 0.5)
    if kind == "naive":
        return datetime.datetime(1970, 1, 1) + datetime.timedelta(seconds=t)
    if kind == "aware":
        tz = datetime.timezone(datetime.timedelta(minutes=case.get("tz_min", 0)))
        return datetime.datetime.fromtimestamp(t, tz)
    return t


@oracle(PROPERTY, "generate")
def o_generate(rec: Recorder, case, soft=False):
    from passlib.totp import TOTP

    key, alg, digits, period, t = case["key"], case["alg"], case["digits"], case["period"], case["time"]
    how = case.get("how", "ctor")
    if how == "factory":
        # the documented factory route: settings and clock fixed by TOTP.using(), instances made from the key alone
        otp = TOTP.using(alg=alg, digits=digits, period=period, now=lambda: t + 0.25)(key=key, format="raw")
        if (otp.alg, otp.digits, otp.period) != (alg, digits, period):
            rec.fail("C13/factory-settings", "an object made by TOTP.using(alg=, digits=, period=) does not carry those settings", "generate", case, (otp.alg, otp.digits, otp.period), (alg, digits, period), soft=soft)
            return
        now_tok = otp.generate()  # no time given: the factory's clock
        c0 = t // period
        want = (R.totp(key, t, period, digits, alg), c0, (c0 + 1) * period - (t + 0.25), True)
        got = (now_tok.token, now_tok.counter, now_tok.remaining, now_tok.valid)
        if got[:2] != want[:2] or abs(got[2] - want[2]) > 1e-6 or got[3] is not True:
            rec.fail("C13/factory-clock", "generate() without a time does not follow the factory's clock (token, counter, remaining, valid)", "generate", case, got, want, soft=soft)
            return
    else:
        otp = TOTP(key=key, format="raw", alg=alg, digits=digits, period=period)
    tok = otp.generate(_time_value(case))
    exp = R.totp(key, t, period, digits, alg)
    if tok.token != exp:
        rec.fail(f"C13/token/{alg}/digits{digits}", "TOTP.generate().token differs from the RFC 4226/6238 value", "generate", case, tok.token, exp, soft=soft)
        return
    if not (isinstance(tok.token, str) and len(tok.token) == digits and tok.token.isascii() and tok.token.isdigit()):
        rec.fail("C13/token-shape", "token is not a zero-padded decimal string of exactly `digits` digits", "generate", case, tok.token, digits, soft=soft)
        return
    c = t // period
    got = (tok.counter, tok.start_time, tok.expire_time)
    if got != (c, c * period, (c + 1) * period):
        rec.fail("C13/validity-interval", "counter/start_time/expire_time differ from floor(t/period) and its interval", "generate", case, got, (c, c * period, (c + 1) * period), soft=soft)
        return
    a, b = tuple(tok)[:2]
    if (a, b) != (tok.token, tok.expire_time):
        rec.fail("C13/token-tuple", "TotpToken does not unpack to (token, expire_time)", "generate", case, (a, b), None, soft=soft)


def key_forms(key: bytes, deco):
    """documented text forms of a key"""
    b32 = base64.b32encode(key).decode()
    hx = key.hex()
    forms = []
    v = b32.rstrip("=") if deco.get("strip_pad", True) else b32
    if deco.get("lower"):
        v = v.lower()
    if deco.get("typo"):
        v = v.replace("O", "0").replace("B", "8").replace("o", "0").replace("b", "8")
    sep = deco.get("sep", "")
    if sep:
        v = sep.join(v[i : i + 4] for i in range(0, len(v), 4))
    forms.append(("base32", v))
    h = hx.upper() if deco.get("upper_hex") else hx
    if sep:
        h = sep.join(h[i : i + 4] for i in range(0, len(h), 4))
    forms.append(("hex", h))
    forms.append(("base16", h))  # documented alias of "hex"
    forms.append(("raw", key))
    if deco.get("as_bytes"):
        forms = [(f, x.encode() if isinstance(x, str) else x) for f, x in forms]
    return forms


@oracle(PROPERTY, "key_forms")
def o_key_forms(rec: Recorder, case, soft=False):
    from passlib.totp import TOTP

    key, deco = case["key"], case["deco"]
    for fmt, text in key_forms(key, deco):
        st, r = call(lambda: TOTP(key=text, format=fmt))
        if st == "err":
            rec.fail(f"C13/key-form-rejected/{fmt}", f"documented key text form ({fmt}) rejected", "key_forms", dict(case, form=[fmt, text]), repr(r), "accepted", soft=soft)
            return
        if r.key != key:
            rec.fail(f"C13/key-form-differs/{fmt}", f"key given in {fmt} form denotes a different key", "key_forms", dict(case, form=[fmt, text]), r.key.hex(), key.hex(), soft=soft)
            return
    otp = TOTP(key=key, format="raw")
    if bytes.fromhex(otp.hex_key) != key or base64.b32decode(otp.base32_key + "=" * (-len(otp.base32_key) % 8)) != key:
        rec.fail("C13/key-render", "hex_key / base32_key do not decode back to the key", "key_forms", case, [otp.hex_key, otp.base32_key], key.hex(), soft=soft)
        return
    for fmt in ("base32", "hex", "base16"):
        for sep in ("-", " ", False):
            txt = otp.pretty_key(format=fmt, sep=sep)
            if TOTP(key=txt, format=fmt).key != key:
                rec.fail("C13/pretty-key", "pretty_key() output does not load back to the same key", "key_forms", case, txt, key.hex(), soft=soft)
                return
    if TOTP(key=key, format="raw").generate(59).token != R.totp(key, 59):
        rec.fail("C13/token/sha1/digits6", "token differs from reference", "key_forms", case, None, None, soft=soft)


@oracle(PROPERTY, "rekey")
def o_rekey(rec: Recorder, case, soft=False):
    """history on ONE object: generate, replace the key, generate again -- every token follows the key the object reports"""
    from passlib.totp import TOTP

    keys, alg, digits, period, times = case["keys"], case["alg"], case["digits"], case["period"], case["times"]
    otp = TOTP(key=keys[0], format="raw", alg=alg, digits=digits, period=period)
    for i, key in enumerate(keys):
        if i:
            otp.key = key
        if otp.key != key or bytes.fromhex(otp.hex_key) != key:
            rec.fail("C13/rekey/key-attr", "assigning .key does not change the reported key", "rekey", case, otp.hex_key, key.hex(), soft=soft)
            return
        for t in times:
            got, exp = otp.generate(t).token, R.totp(key, t, period, digits, alg)
            if got != exp:
                rec.fail("C13/rekey/stale-token", f"after {'re-keying' if i else 'creation'} the object generates a token that is not the RFC value for the key it reports (step {i})", "rekey", case, got, exp, soft=soft)
                return
            m = otp.match(exp, t, window=0)
            if m.counter != t // period:
                rec.fail("C13/rekey/match", "match() of the reference token for the current key fails", "rekey", case, m.counter, t // period, soft=soft)
                return


ORACLES = {"generate": o_generate, "key_forms": o_key_forms, "rekey": o_rekey}


def _cases():
    from hypothesis import strategies as st

    periods = st.one_of(st.integers(1, 3600), st.sampled_from([1, 2, 29, 30, 31, 59, 60, 3599, 3600]))

    @st.composite
    def s(draw):
        period = draw(periods)
        digits = draw(st.integers(6, 10))
        alg = draw(st.sampled_from(["sha1", "sha256", "sha512"]))
        klen = draw(st.one_of(st.integers(1, 64), st.sampled_from([1, 9, 10, 16, 20, 32, 63, 64])))
        key = draw(st.binary(min_size=klen, max_size=klen))
        tk = draw(st.sampled_from(["boundary", "boundary", "free", "small", "huge"]))
        if tk == "boundary":
            k = draw(st.integers(0, (1 << 40) // period))
            t = max(0, k * period + draw(st.sampled_from([-1, 0, 0, 1, period - 1])))
        elif tk == "small":
            t = draw(st.integers(0, 3 * period))
        elif tk == "huge":
            t = draw(st.integers(1 << 32, 1 << 40))
        else:
            t = draw(st.integers(0, 1 << 40))
        kind = draw(st.sampled_from(["int", "int", "float", "naive", "aware"]))
        case = {"key": key, "alg": alg, "digits": digits, "period": period, "time": t, "time_kind": kind, "time_class": tk, "how": draw(st.sampled_from(["ctor", "ctor", "factory"]))}
        if kind in ("naive", "aware"):
            case["time"] = t = min(t, 250_000_000_000)  # datetime range (year ~9890)
            if kind == "aware":
                case["tz_min"] = draw(st.sampled_from([0, 60, -60, 330, -570, 840, -840, 1]))
        if kind == "float":
            case["frac"] = draw(st.sampled_from([0.0, 0.25, 0.5, 0.999]))
        return case

    return s()


def t_generate(rec, seed, tier, shard):
    n = 4000 if tier == "quick" else 60000

    def body(case):
        rec.ev()
        exp = R.totp(case["key"], case["time"], case["period"], case["digits"], case["alg"])
        boundary = case["time"] % case["period"] in (0, case["period"] - 1)
        if exp.startswith("0") or case["digits"] >= 9 or boundary:
            rec.nt(case["alg"], case["digits"], min(case["period"], 61), case["time_class"], case["time_kind"], len(case["key"]), exp[0] == "0", boundary)
        rec.count(f"generate:{case['alg']}:d{case['digits']}:{case['time_kind']}")
        if exp.startswith("0"):
            rec.count("generate:leading-zero")
        rec.sample(f"generate:{case['time_kind']}", case)
        o_generate(rec, case)

    hyp_campaign(rec, body, _cases(), n, seed + shard)


def t_leading_zero(rec, seed, tier):
    """for every (alg, digits): walk counters until 3 codes with a leading zero (and one with >=2) were checked"""
    keys = [b"12345678901234567890", bytes(range(1, 33)), b"\xff" * 64]
    n = 0
    for alg in ("sha1", "sha256", "sha512"):
        for digits in range(6, 11):
            for key in keys:
                found = 0
                c = 0
                while found < 3 and c < 4000:
                    code = R.hotp(key, c, digits, alg)
                    if code.startswith("0"):
                        case = {"key": key, "alg": alg, "digits": digits, "period": 30, "time": c * 30 + 7, "time_kind": "int"}
                        o_generate(rec, case, soft=True)
                        rec.nt("lz", alg, digits, key[:2], c)
                        n += 1
                        found += 1
                        if found == 1:
                            rec.sample("leading-zero", dict(case, code=code))
                    c += 1
    rec.ev(n)
    rec.count("leading-zero-cases", n)


def t_key_forms(rec, seed, tier):
    from hypothesis import strategies as st

    n = 2000 if tier == "quick" else 8000
    deco = st.fixed_dictionaries({
        "lower": st.booleans(), "typo": st.booleans(), "sep": st.sampled_from(["", "", " ", "-", "  ", "- ", "\t", "\n", " \r\n"]), "strip_pad": st.booleans(),
        "upper_hex": st.booleans(), "as_bytes": st.booleans(),
    })
    cases = st.fixed_dictionaries({"key": st.one_of(st.binary(min_size=10, max_size=64), st.binary(min_size=1, max_size=9)), "deco": deco})

    def body(case):
        rec.ev()
        d = case["deco"]
        if d["lower"] or d["typo"] or d["sep"]:
            rec.nt("kf", case["key"], sorted(d.items()))
        rec.count(f"key-forms:sep={d['sep']!r}")
        rec.sample("key-forms", case)
        o_key_forms(rec, case)

    hyp_campaign(rec, body, cases, n, seed)


def t_rekey(rec, seed, tier):
    from hypothesis import strategies as st

    n = 1000 if tier == "quick" else 4000
    cases = st.fixed_dictionaries({
        "keys": st.lists(st.binary(min_size=10, max_size=40), min_size=2, max_size=4), "alg": st.sampled_from(["sha1", "sha256", "sha512"]),
        "digits": st.integers(6, 10), "period": st.sampled_from([1, 30, 60]), "times": st.lists(st.integers(0, 1 << 34), min_size=1, max_size=3),
    })

    def body(case):
        rec.ev()
        rec.nt("rekey", tuple(case["keys"]), case["alg"], case["digits"], case["period"], tuple(case["times"]))
        rec.count(f"rekey:{len(case['keys'])}-keys")
        rec.sample("rekey", case)
        o_rekey(rec, case)

    hyp_campaign(rec, body, cases, n, seed)


def tasks(tier):
    ts = [{"name": f"generate-{i}", "fn": "t_generate", "kw": {"shard": i}} for i in range(4 if tier == "quick" else 12)]
    ts += [{"name": "leading-zero", "fn": "t_leading_zero"}, {"name": "key-forms", "fn": "t_key_forms"}, {"name": "rekey", "fn": "t_rekey"}]
    return ts
