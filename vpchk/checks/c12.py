"""C12 -- binary-to-text encodings are exact inverses and match their alphabets."""

from __future__ import annotations

import base64

from ..common import Recorder, hyp_campaign, call, oracle

PROPERTY = "C12"
LEVEL = "exploration"
RULE = (
    "Exhaustive enumeration of all 1- and 2-byte groups (thorough: all 3-byte groups) per engine, all 6/12-bit "
    "(thorough: 24-bit) integers, every final character for padding repair; Hypothesis byte strings of length 0..200, "
    "boundary-heavy 30/64-bit integers, base32 decorations, transposed codecs over the offset tables the hashes use. "
    "Oracle: decode(encode(x))==x, alphabet/length, equality with stdlib base64/base32 under alphabet translation "
    "(little-endian engines: own bit-string reference), ValueError for wrong length/alphabet/range. "
    "Non-trivial = input of >=1 byte / integer >0; distinct inputs counted exactly (enumeration) or by fingerprint."
)
ASSUMPTIONS = [
    "stdlib base64/binascii are correct",
    "b64s_decode/ab64_decode: only the documented errors (length = 1 mod 4, non-ASCII text) are asserted; "
    "out-of-alphabet characters there are handled by the lenient stdlib decoder and are not judged",
]

STD = "ABCDEFGHIJKLMNOPQRSTUVWXYZabcdefghijklmnopqrstuvwxyz0123456789+/"
H64 = "./0123456789ABCDEFGHIJKLMNOPQRSTUVWXYZabcdefghijklmnopqrstuvwxyz"
BC64 = "./ABCDEFGHIJKLMNOPQRSTUVWXYZabcdefghijklmnopqrstuvwxyz0123456789"

_ENGINES = None


def engines():
    """name -> (engine, alphabet, big, has_decode)"""
    global _ENGINES
    if _ENGINES is None:
        from passlib.utils import binary as pb
        from libpass._utils import binary as lb

        _ENGINES = {
            "h64": (pb.h64, H64, False, True),
            "h64big": (pb.h64big, H64, True, True),
            "bcrypt64": (pb.bcrypt64, BC64, True, True),
            "std-big": (pb.Base64Engine(STD, big=True), STD, True, True),
            "std-little": (pb.Base64Engine(STD), STD, False, True),
            "libpass-h64": (lb.h64_engine, H64, False, False),
            "libpass-h64big": (lb.Base64Engine(lb.B64_CHARS, big=True), H64, True, False),
        }
    return _ENGINES


# ---- independent references ------------------------------------------------------------
def ref_encode(data: bytes, alphabet: str, big: bool) -> bytes:
    if big:
        tr = bytes.maketrans(STD.encode(), alphabet.encode())
        return base64.b64encode(data).rstrip(b"=").translate(tr)
    out = []
    for i in range(0, len(data), 3):
        grp = data[i : i + 3]
        v = int.from_bytes(grp, "little")
        nchar = (8 * len(grp) + 5) // 6
        for k in range(nchar):
            out.append(alphabet[(v >> (6 * k)) & 63])
    return "".join(out).encode()


def ref_int(value: int, bits: int, alphabet: str, big: bool) -> bytes:
    n = (bits + 5) // 6
    pad = 6 * n - bits
    if big:
        value <<= pad
        digs = [(value >> (6 * (n - 1 - k))) & 63 for k in range(n)]
    else:
        digs = [(value >> (6 * k)) & 63 for k in range(n)]
    return "".join(alphabet[d] for d in digs).encode()


# ---- oracles ---------------------------------------------------------------------------
@oracle(PROPERTY, "engine_bytes")
def o_engine_bytes(rec: Recorder, case, soft=False):
    """case: {engine, data}"""
    name, data = case["engine"], case["data"]
    eng, alpha, big, has_dec = engines()[name]
    enc = eng.encode_bytes(data)
    exp = ref_encode(data, alpha, big)
    if enc != exp or not isinstance(enc, bytes):
        rec.fail(f"C12/encode-mismatch/{name}", f"{name}.encode_bytes differs from reference", "engine_bytes", case, enc, exp, soft=soft)
        return
    if has_dec:
        dec = eng.decode_bytes(enc)
        if dec != data:
            rec.fail(f"C12/roundtrip/{name}", f"{name}.decode_bytes(encode_bytes(x)) != x", "engine_bytes", case, dec, data, soft=soft)


@oracle(PROPERTY, "engine_int")
def o_engine_int(rec: Recorder, case, soft=False):
    """case: {engine, bits, value}"""
    name, bits, value = case["engine"], case["bits"], case["value"]
    eng, alpha, big, _ = engines()[name]
    enc = getattr(eng, f"encode_int{bits}")(value)
    exp = ref_int(value, bits, alpha, big)
    if enc != exp:
        rec.fail(f"C12/int-encode/{name}/int{bits}", f"{name}.encode_int{bits} differs from reference", "engine_int", case, enc, exp, soft=soft)
        return
    dec = getattr(eng, f"decode_int{bits}")(enc)
    if dec != value:
        rec.fail(f"C12/int-roundtrip/{name}/int{bits}", f"{name}.decode_int{bits}(encode_int{bits}(v)) != v", "engine_int", case, dec, value, soft=soft)


@oracle(PROPERTY, "int_range")
def o_int_range(rec: Recorder, case, soft=False):
    """out-of-range ints and wrong-length / out-of-alphabet text must raise ValueError"""
    name, bits, value = case["engine"], case["bits"], case["value"]
    eng, alpha, big, _ = engines()[name]
    st, r = call(getattr(eng, f"encode_int{bits}"), value)
    if not (st == "err" and isinstance(r, ValueError)):
        rec.fail(f"C12/int-range/{name}/int{bits}", f"{name}.encode_int{bits}({value}) out of range did not raise ValueError", "int_range", case, repr(r), "ValueError", soft=soft)


@oracle(PROPERTY, "int_decode_range")
def o_int_decode_range(rec: Recorder, case, soft=False):
    """case: {engine, text}: decode_int64 of any 11-character text over the alphabet is a 64-bit integer, or the text is refused"""
    name = case["engine"]
    eng = engines()[name][0]
    st, r = call(eng.decode_int64, case["text"])
    if st == "err" and isinstance(r, ValueError):
        return
    if st == "err":
        raise r
    if not (isinstance(r, int) and 0 <= r < (1 << 64)):
        rec.fail(f"C12/int-decode-range/{name}", f"{name}.decode_int64 returns a value outside 0..2^64-1 for an 11-character text", "int_decode_range", case, repr(r), "0 <= value < 2**64 or ValueError", soft=soft)


@oracle(PROPERTY, "decode_reject")
def o_decode_reject(rec: Recorder, case, soft=False):
    """case: {engine, method, text(bytes)}: malformed text must raise ValueError"""
    name, meth, text = case["engine"], case["method"], case["text"]
    eng = engines()[name][0]
    st, r = call(getattr(eng, meth), text)
    if not (st == "err" and isinstance(r, ValueError)):
        rec.fail(f"C12/decode-reject/{name}/{meth}", f"{name}.{meth} accepted malformed input or raised the wrong error", "decode_reject", case, repr(r), "ValueError", soft=soft)


@oracle(PROPERTY, "padding")
def o_padding(rec: Recorder, case, soft=False):
    """case: {engine, text(bytes), as_str}: check_repair_unused changes only padding bits;
    decode(dirty) == decode(repaired)"""
    name, text = case["engine"], case["text"]
    eng, alpha, big, _ = engines()[name]
    src = text.decode("ascii") if case.get("as_str") else text
    tail = len(text) & 3
    padbits = {2: 4, 3: 2, 0: 0}[tail]
    changed, out = eng.check_repair_unused(src)
    outb = out.encode("ascii") if isinstance(out, str) else out
    ok = type(out) is type(src) and len(outb) == len(text) and outb[:-1] == text[:-1] if text else out == src
    if text:
        vi, vo = alpha.index(chr(text[-1])), alpha.index(chr(outb[-1]))
        mask = ((1 << padbits) - 1) if big else (((1 << padbits) - 1) << (6 - padbits))
        exp_v = vi & ~mask
        ok = ok and vo == exp_v and changed == (vi != exp_v)
    if not ok:
        rec.fail(f"C12/padding-repair/{name}", f"{name}.check_repair_unused changed more than the padding bits", "padding", case, (changed, out), None, soft=soft)
        return
    d1, d2 = eng.decode_bytes(text), eng.decode_bytes(outb)
    if d1 != d2:
        rec.fail(f"C12/padding-decode/{name}", f"{name}.decode_bytes differs between dirty and repaired padding", "padding", case, d1, d2, soft=soft)
    if eng.encode_bytes(d2) != outb:
        rec.fail(f"C12/padding-canonical/{name}", f"{name}: repaired text is not the canonical encoding of its bytes", "padding", case, eng.encode_bytes(d2), outb, soft=soft)


def _helpers():
    from passlib.utils import binary as pb
    from libpass._utils import deprecated as ld

    return {"passlib": pb, "libpass": ld}


@oracle(PROPERTY, "helper_b64")
def o_helper_b64(rec: Recorder, case, soft=False):
    """case: {impl, data}: b64s/ab64 helpers"""
    impl, data = case["impl"], case["data"]
    m = _helpers()[impl]
    std = base64.b64encode(data).rstrip(b"=")
    e1 = m.b64s_encode(data)
    e2 = m.ab64_encode(data)
    if e1 != std:
        rec.fail(f"C12/b64s-encode/{impl}", "b64s_encode != unpadded standard base64", "helper_b64", case, e1, std, soft=soft)
    if e2 != std.replace(b"+", b"."):
        rec.fail(f"C12/ab64-encode/{impl}", "ab64_encode != standard base64 with + replaced by .", "helper_b64", case, e2, std.replace(b"+", b"."), soft=soft)
    for fn, txt in (("b64s_decode", std), ("ab64_decode", std), ("ab64_decode", std.replace(b"+", b"."))):
        for form in (txt, txt.decode("ascii")):
            d = getattr(m, fn)(form)
            if d != data:
                rec.fail(f"C12/{fn}/{impl}", f"{fn}(encode(x)) != x", "helper_b64", case, d, data, soft=soft)


@oracle(PROPERTY, "helper_b64_reject")
def o_helper_b64_reject(rec: Recorder, case, soft=False):
    """case: {impl, fn, text}: length = 1 mod 4 or non-ASCII str -> ValueError (TypeError tolerated
    for binascii errors as the code documents)"""
    m = _helpers()[case["impl"]]
    st, r = call(getattr(m, case["fn"]), case["text"])
    if not (st == "err" and isinstance(r, (ValueError, TypeError))):
        rec.fail(f"C12/b64-reject/{case['impl']}/{case['fn']}", "malformed base64 text accepted or wrong error", "helper_b64_reject", case, repr(r), "ValueError", soft=soft)


@oracle(PROPERTY, "b32")
def o_b32(rec: Recorder, case, soft=False):
    """case: {data, lower, typo, pad, as_bytes}"""
    from passlib.utils import binary as pb

    data = case["data"]
    std = base64.b32encode(data).decode().rstrip("=")
    enc = pb.b32encode(data)
    if enc != std or not isinstance(enc, str):
        rec.fail("C12/b32encode", "b32encode != stdlib base32 with padding stripped", "b32", case, enc, std, soft=soft)
        return
    txt = std
    if case.get("typo"):
        txt = txt.replace("O", "0").replace("B", "8")
    if case.get("lower"):
        txt = txt.lower()
    if case.get("pad"):
        txt = txt + "=" * (-len(txt) % 8)
    src = txt.encode("ascii") if case.get("as_bytes") else txt
    dec = pb.b32decode(src)
    if dec != data:
        rec.fail("C12/b32decode", "b32decode(decorated b32encode(x)) != x", "b32", case, dec, data, soft=soft)


def _offset_tables():
    from passlib.handlers import md5_crypt, sha1_crypt, sha2_crypt, sun_md5_crypt

    t = {
        "md5_crypt": tuple(md5_crypt.md5_crypt._transpose_map) if hasattr(md5_crypt.md5_crypt, "_transpose_map") else tuple(md5_crypt._transpose_map),
        "sha1_crypt": tuple(sha1_crypt._chk_offsets) if hasattr(sha1_crypt, "_chk_offsets") else None,
        "sha256_crypt": tuple(sha2_crypt._256_transpose_map),
        "sha512_crypt": tuple(sha2_crypt._512_transpose_map),
        "sun_md5_crypt": tuple(sun_md5_crypt._chk_offsets) if hasattr(sun_md5_crypt, "_chk_offsets") else None,
    }
    return {k: v for k, v in t.items() if v}


@oracle(PROPERTY, "transposed")
def o_transposed(rec: Recorder, case, soft=False):
    """case: {engine, table, data}"""
    name, tname, data = case["engine"], case["table"], case["data"]
    eng, alpha, big, has_dec = engines()[name]
    offs = _offset_tables()[tname]
    enc = eng.encode_transposed_bytes(data, offs)
    exp = ref_encode(bytes(data[o] for o in offs), alpha, big)
    if enc != exp:
        rec.fail(f"C12/transposed-encode/{name}/{tname}", "encode_transposed_bytes != reference", "transposed", case, enc, exp, soft=soft)
        return
    if has_dec and sorted(offs) == list(range(len(data))):
        dec = eng.decode_transposed_bytes(enc, offs)
        if dec != data:
            rec.fail(f"C12/transposed-roundtrip/{name}/{tname}", "decode_transposed(encode_transposed(x)) != x", "transposed", case, dec, data, soft=soft)


ORACLES = {
    "engine_bytes": o_engine_bytes,
    "engine_int": o_engine_int,
    "int_range": o_int_range,
    "int_decode_range": o_int_decode_range,
    "decode_reject": o_decode_reject,
    "padding": o_padding,
    "helper_b64": o_helper_b64,
    "helper_b64_reject": o_helper_b64_reject,
    "b32": o_b32,
    "transposed": o_transposed,
}


# ---- tasks -----------------------------------------------------------------------------
def t_groups(rec, seed, tier, engine, nbytes, lo, hi):
    """exhaustive: all byte groups of `nbytes` bytes whose first byte is in [lo,hi)"""
    n = 0
    for first in range(lo, hi):
        if nbytes == 1:
            it = [bytes([first])]
        elif nbytes == 2:
            it = (bytes([first, b]) for b in range(256))
        else:
            it = (bytes([first, b, c]) for b in range(256) for c in range(256))
        for data in it:
            o_engine_bytes(rec, {"engine": engine, "data": data}, soft=True)
            n += 1
    rec.ev(n)
    rec.nt_bulk(n)
    rec.count(f"groups{nbytes}:{engine}", n)
    rec.sample(f"group{nbytes}", {"engine": engine, "data": bytes([lo] * nbytes), "encoded": engines()[engine][0].encode_bytes(bytes([lo] * nbytes))})
    rec.subrecord(f"groups{nbytes}", exhaustive=True)


def t_ints(rec, seed, tier, engine, bits, lo, hi):
    n = 0
    for v in range(lo, hi):
        o_engine_int(rec, {"engine": engine, "bits": bits, "value": v}, soft=True)
        n += 1
    rec.ev(n)
    rec.nt_bulk(max(0, n - (1 if lo == 0 else 0)))
    rec.count(f"int{bits}:{engine}", n)
    rec.sample(f"int{bits}", {"engine": engine, "bits": bits, "value": hi - 1})
    rec.subrecord(f"int{bits}", exhaustive=True)


def t_padding(rec, seed, tier):
    """every final character x both tail sizes x a few prefixes x str/bytes"""
    n = 0
    for name, (eng, alpha, big, has_dec) in engines().items():
        if not has_dec:
            continue
        for prefix in ("", "AB", "zz", alpha[7] * 4 + alpha[63], "abcd" * 3):
            for tail_extra in (1, 2):
                pre = prefix[: len(prefix) - (len(prefix) % 4)] + alpha[5] * tail_extra
                for ch in alpha:
                    text = (pre + ch).encode()
                    if len(text) % 4 not in (2, 3):
                        continue
                    for as_str in (False, True):
                        o_padding(rec, {"engine": name, "text": text, "as_str": as_str}, soft=True)
                        n += 1
    rec.ev(n)
    rec.nt_bulk(n)
    rec.sample("padding", {"engine": "bcrypt64", "text": b"......................", "note": "all 64 final characters tried"})


def t_reject(rec, seed, tier):
    n = 0
    for name, (eng, alpha, big, has_dec) in engines().items():
        if not has_dec:
            continue
        a = alpha.encode()
        bad = [c for c in range(256) if c not in a]
        # wrong length
        for ln in (1, 5, 9, 13, 41):
            o_decode_reject(rec, {"engine": name, "method": "decode_bytes", "text": a[:1] * ln}, soft=True)
            n += 1
        # every out-of-alphabet byte at first/middle/last position of 2,3,4,7-char text
        for c in bad:
            for ln in (2, 3, 4, 7):
                for pos in {0, ln // 2, ln - 1}:
                    t = bytearray(a[3:4] * ln)
                    t[pos] = c
                    o_decode_reject(rec, {"engine": name, "method": "decode_bytes", "text": bytes(t)}, soft=True)
                    n += 1
            for meth, ln in (("decode_int6", 1), ("decode_int12", 2), ("decode_int24", 4), ("decode_int30", 5), ("decode_int64", 11)):
                t = bytearray(a[3:4] * ln)
                t[ln - 1] = c
                o_decode_reject(rec, {"engine": name, "method": meth, "text": bytes(t)}, soft=True)
                n += 1
        for meth, ln in (("decode_int6", 1), ("decode_int12", 2), ("decode_int24", 4), ("decode_int30", 5), ("decode_int64", 11)):
            for wrong in (0, ln - 1, ln + 1, ln + 4):
                if wrong != ln:
                    o_decode_reject(rec, {"engine": name, "method": meth, "text": a[:1] * wrong}, soft=True)
                    n += 1
        for bits in (6, 12, 24, 30, 64):
            for v in (-1, 1 << bits, (1 << bits) + 1, 1 << (bits + 7), -(1 << bits)):
                o_int_range(rec, {"engine": name, "bits": bits, "value": v}, soft=True)
                n += 1
        # 11 characters carry 66 bits: whatever the two spare bits are, a decoded 64-bit integer is a 64-bit integer (or the text is refused)
        for v in (0, 1, (1 << 64) - 1, 0x0123456789ABCDEF, 1 << 63):
            canon = eng.encode_int64(v)
            for pos in (0, 10):
                for c in a:
                    alt = canon[:pos] + bytes([c]) + canon[pos + 1:]
                    n += 1
                    o_int_decode_range(rec, {"engine": name, "text": alt}, soft=True)
    for impl in ("passlib", "libpass"):
        for fn in ("b64s_decode", "ab64_decode"):
            for text in (b"A", b"AAAAA", "A" * 9, "AAé", "ĀAA"):
                o_helper_b64_reject(rec, {"impl": impl, "fn": fn, "text": text}, soft=True)
                n += 1
    rec.ev(n)
    rec.nt_bulk(n)
    rec.sample("reject", {"engine": "h64", "method": "decode_bytes", "text": b"..!."})


def _bytes_strategy():
    from hypothesis import strategies as st

    sizes = st.one_of(st.integers(0, 200), st.sampled_from([0, 1, 2, 3, 4, 5, 6, 15, 16, 17, 20, 31, 32, 33, 63, 64, 65, 200]))
    content = st.one_of(
        st.just("random"),
        st.sampled_from(["zero", "ff", "ramp", "aa55"]),
    )

    @st.composite
    def s(draw):
        n = draw(sizes)
        kind = draw(content)
        if kind == "random":
            return draw(st.binary(min_size=n, max_size=n))
        if kind == "zero":
            return b"\x00" * n
        if kind == "ff":
            return b"\xff" * n
        if kind == "ramp":
            off = draw(st.integers(0, 255))
            return bytes((off + i) & 255 for i in range(n))
        return (b"\xaa\x55" * n)[:n]

    return s()


def t_hyp_bytes(rec, seed, tier, engine):
    from hypothesis import strategies as st

    n = 1500 if tier == "quick" else 20000

    def body(data):
        rec.ev()
        case = {"engine": engine, "data": data}
        if data:
            rec.nt(engine, data)
        rec.count(f"hyp-bytes:{engine}:len%3={len(data) % 3}")
        if len(data) > 3:
            rec.sample(f"hyp-bytes:{engine}", case)
        o_engine_bytes(rec, case)

    hyp_campaign(rec, body, _bytes_strategy(), n, seed)


def t_hyp_ints(rec, seed, tier):
    from hypothesis import strategies as st

    n = 3000 if tier == "quick" else 40000
    names = [k for k, v in engines().items() if v[3]]

    @st.composite
    def s(draw):
        bits = draw(st.sampled_from([24, 30, 64]))
        top = (1 << bits) - 1
        v = draw(
            st.one_of(
                st.integers(0, top),
                st.sampled_from([0, 1, 63, 64, 4095, 4096, top, top - 1, top >> 1, (top >> 1) + 1, 1 << (bits - 6), (1 << (bits - 6)) - 1]),
                st.integers(0, bits - 1).map(lambda k: 1 << k),
            )
        )
        return {"engine": draw(st.sampled_from(names)), "bits": bits, "value": v}

    def body(case):
        rec.ev()
        if case["value"]:
            rec.nt(case["engine"], case["bits"], case["value"])
        rec.count(f"hyp-int{case['bits']}")
        rec.sample(f"hyp-int{case['bits']}", case)
        o_engine_int(rec, case)

    hyp_campaign(rec, body, s(), n, seed)


def t_hyp_helpers(rec, seed, tier):
    from hypothesis import strategies as st

    n = 2000 if tier == "quick" else 30000

    @st.composite
    def s(draw):
        kind = draw(st.sampled_from(["b64", "b32", "transposed"]))
        if kind == "b64":
            return {"kind": kind, "impl": draw(st.sampled_from(["passlib", "libpass"])), "data": draw(_bytes_strategy())}
        if kind == "b32":
            return {
                "kind": kind,
                "data": draw(_bytes_strategy()),
                "lower": draw(st.booleans()),
                "typo": draw(st.booleans()),
                "pad": draw(st.booleans()),
                "as_bytes": draw(st.booleans()),
            }
        tables = _offset_tables()
        tname = draw(st.sampled_from(sorted(tables)))
        ln = max(tables[tname]) + 1
        return {
            "kind": kind,
            "engine": draw(st.sampled_from(sorted(engines()))),
            "table": tname,
            "data": draw(st.binary(min_size=ln, max_size=ln)),
        }

    def body(case):
        rec.ev()
        kind = case["kind"]
        if case["data"]:
            rec.nt(sorted(case.items()))
        rec.count(f"hyp-helper:{kind}")
        rec.sample(f"hyp-helper:{kind}", case)
        {"b64": o_helper_b64, "b32": o_b32, "transposed": o_transposed}[kind](rec, case)

    hyp_campaign(rec, body, s(), n, seed)


def tasks(tier):
    ts = []
    names = list(engines())
    for e in names:
        ts.append({"name": f"groups1-{e}", "fn": "t_groups", "kw": {"engine": e, "nbytes": 1, "lo": 0, "hi": 256}})
        for lo in range(0, 256, 128):
            ts.append({"name": f"groups2-{e}-{lo}", "fn": "t_groups", "kw": {"engine": e, "nbytes": 2, "lo": lo, "hi": lo + 128}})
        if tier == "thorough":
            for lo in range(0, 256, 16):
                ts.append({"name": f"groups3-{e}-{lo:03d}", "fn": "t_groups", "kw": {"engine": e, "nbytes": 3, "lo": lo, "hi": lo + 16}})
        ts.append({"name": f"hyp-bytes-{e}", "fn": "t_hyp_bytes", "kw": {"engine": e}})
    for e in names:
        if not engines()[e][3]:
            continue
        ts.append({"name": f"int6-{e}", "fn": "t_ints", "kw": {"engine": e, "bits": 6, "lo": 0, "hi": 64}})
        ts.append({"name": f"int12-{e}", "fn": "t_ints", "kw": {"engine": e, "bits": 12, "lo": 0, "hi": 4096}})
        if tier == "thorough":
            for k in range(4):
                ts.append({"name": f"int24-{e}-{k}", "fn": "t_ints", "kw": {"engine": e, "bits": 24, "lo": k << 22, "hi": (k + 1) << 22}})
    ts.append({"name": "padding", "fn": "t_padding"})
    ts.append({"name": "reject", "fn": "t_reject"})
    ts.append({"name": "hyp-ints", "fn": "t_hyp_ints"})
    ts.append({"name": "hyp-helpers", "fn": "t_hyp_helpers"})
    return ts

LEVEL_TEXT = (
    "Complete enumeration of the small finite sub-domains (every 1- and 2-byte group per engine in the quick tier, every "
    "3-byte group and every 24-bit integer in the thorough tier, all 6/12-bit integers, every final character for padding "
    "repair) plus seeded Hypothesis search over lengths 0..200 and 30/64-bit integers, each judged against stdlib base64/base32 "
    "or an independent bit-string reference. Because every engine processes input in independent 3-byte groups, the exhaustive "
    "group enumeration covers the encoder's whole per-group behaviour; the rest is exploration."
)
LEVEL_NOTE = "Trusted: CPython stdlib base64/binascii, the 25-line reference encoders in vpchk/checks/c12.py, Hypothesis."
TECHNIQUE = "exhaustive enumeration + Hypothesis round-trip/differential testing against stdlib base64 and an independent reference"
#: thorough tier: seed-dependent tasks are repeated under this many derived seeds (run.py); the listed task functions enumerate fixed domains
THOROUGH_REPS = 3
DETERMINISTIC_FNS = ('t_groups', 't_ints', 't_padding', 't_reject')
RULE += " decode_int64 of any 11-character text over the alphabet is a 64-bit integer or is refused."
