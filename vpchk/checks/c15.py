"""C15 -- a TOTP configuration survives every serialisation."""

from __future__ import annotations

import hashlib
import json
import types
import urllib.parse

from ..common import Recorder, call, hyp_campaign, oracle
from ..refs import hotp as R

PROPERTY = "C15"
LEVEL = "exploration"
RULE = (
    "Hypothesis cases: key x alg x digits x period x label/issuer over a hostile alphabet (space @ / % & = + ? # ; , \" ' non-ASCII "
    "BMP and astral, no ':', at least one non-blank) x {to_uri, to_json, to_dict} x class defaults set via TOTP.using(digits, alg, "
    "period, issuer) x from_source on str/bytes/dict/TOTP; corrupted sources (conflicting issuer prefix vs parameter, duplicate "
    "parameters, missing secret / label, wrong scheme, hotp / unknown type, unknown or missing version, missing key, malformed "
    "ints); wallets: tags, costs, several secrets, default-tag selection (numeric vs lexical), re-encryption flag. Oracle: round "
    "trip => equal key, alg, digits, period, issuer, label (up to the documented stripping of surrounding blanks) and equal tokens "
    "at 5 times; refused sources => ValueError (NotImplementedError for hotp); wallet: decrypt(encrypt(k)) == k under any listed "
    "secret, needs_recrypt iff tag != default or cost differs, unknown tag => KeyError. Non-trivial = label/issuer with a reserved "
    "URI character or non-ASCII, a non-default alg/digits/period, or a class-level default."
)
ASSUMPTIONS = [
    "no `cryptography` package on this host: a stand-in stream cipher (SHA-256 keystream XOR, involutive like CTR) is installed in place of "
    "passlib.totp._cg_ciphers inside the check process so the AppWallet logic (PBKDF2 key/IV derivation, base32 packing, tag/cost handling) is exercised; "
    "with real AES installed the real one is used",
    "all-blank labels are outside the domain (to_uri demands a label)",
]
LEVEL_TEXT = (
    "Seeded generated-input round-trip testing of the three serialisation formats under instance settings and class-level defaults, "
    "a grammar of corrupted sources with an exception-class oracle, and wallet encrypt/decrypt round trips over generated secret maps."
)
LEVEL_NOTE = "Trusted: urllib.parse / json of CPython, vpchk/refs/hotp.py, the stand-in cipher for AES (documented), Hypothesis."
TECHNIQUE = "Hypothesis round-trip testing of URI/JSON/dict serialisation + corrupted-source grammar with exception-class oracle"
#: thorough tier: seed-dependent tasks are repeated under this many derived seeds (run.py); the listed task functions enumerate fixed domains
THOROUGH_REPS = 4
DETERMINISTIC_FNS = ()

TIMES = [0, 59, 1111111109, 1234567890, 20000000000]


def install_standin_aes():
    """-> 'real' if cryptography is present, else installs the stand-in and returns 'stand-in'"""
    from passlib import totp

    if totp._cg_ciphers is not None and not getattr(totp._cg_ciphers, "_vp_standin", False):
        return "real"

    class _Ctx:
        def __init__(self, key, iv):
            self.key, self.iv, self.n = key, iv, 0

        def update(self, data):
            out = bytearray()
            for b in data:
                blk = hashlib.sha256(self.key + self.iv + (self.n // 32).to_bytes(8, "big")).digest()
                out.append(b ^ blk[self.n % 32])
                self.n += 1
            return bytes(out)

        def finalize(self):
            return b""

    class _Cipher:
        def __init__(self, alg, mode, backend=None):
            self.key, self.iv = alg.key, mode.iv

        def encryptor(self):
            return _Ctx(self.key, self.iv)

        decryptor = encryptor

    class _AES:
        def __init__(self, key):
            assert len(key) == 32
            self.key = key

    class _CTR:
        def __init__(self, iv):
            assert len(iv) == 16
            self.iv = iv

    fake = types.SimpleNamespace(Cipher=_Cipher, algorithms=types.SimpleNamespace(AES=_AES), modes=types.SimpleNamespace(CTR=_CTR), _vp_standin=True)
    totp._cg_ciphers = fake
    totp._cg_default_backend = lambda: None
    totp.AES_SUPPORT = True
    return "stand-in"


def _factory(case):
    from passlib.totp import TOTP

    cd = case.get("class_defaults") or {}
    kw = {k: v for k, v in cd.items() if v is not None}
    if case.get("secrets"):
        kw["secrets"] = case["secrets"]
        if case.get("encrypt_cost") is not None:
            kw["encrypt_cost"] = case["encrypt_cost"]
    return TOTP.using(**kw) if kw else TOTP


def _state(otp):
    return {"key": otp.key, "alg": otp.alg, "digits": otp.digits, "period": otp.period, "issuer": otp.issuer,
            "label": otp.label.strip() if otp.label else otp.label}


@oracle(PROPERTY, "roundtrip")
def o_roundtrip(rec: Recorder, case, soft=False):
    """case: {key, alg, digits, period, label, issuer, class_defaults, fmt, via, secrets?}"""
    if case.get("secrets"):
        install_standin_aes()
    F = _factory(case)
    kw = {k: case[k] for k in ("alg", "digits", "period", "label", "issuer") if case.get(k) is not None}
    otp = F(key=case["key"], format="raw", **kw)
    before = _state(otp)
    fmt, via = case["fmt"], case.get("via", "from_source")
    if fmt == "uri":
        if not otp.label:
            ser = otp.to_uri(label="fallback label")
            before["label"] = "fallback label"
        else:
            ser = otp.to_uri()
    elif fmt == "json":
        ser = otp.to_json()
    else:
        ser = otp.to_dict()
    src = ser
    if via == "bytes" and isinstance(ser, str):
        src = ser.encode("utf-8")
    loader = F.from_source if via in ("from_source", "bytes") else {"uri": F.from_uri, "json": F.from_json, "dict": F.from_dict}[fmt]
    st, back = call(loader, src)
    if st == "err":
        rec.fail(f"C15/own-serialisation-rejected/{fmt}", f"TOTP.{loader.__name__} rejects what to_{fmt}() produced", "roundtrip", case, repr(back), ser, soft=soft)
        return
    after = _state(back)
    if fmt == "uri" and before["issuer"] is None and F.issuer:
        before["issuer"] = F.issuer
    if fmt == "uri":
        # the URI is read by another party (an authenticator app, a plain TOTP class without this factory's defaults): it must itself
        # carry everything, including an issuer / digits / period / alg that the object only has from its factory
        from passlib.totp import TOTP as PLAIN

        st2, other = call(PLAIN.from_uri, ser)
        if st2 == "err":
            rec.fail("C15/own-serialisation-rejected/uri-plain", "the plain TOTP class rejects the URI a configured factory's object produced", "roundtrip", case, repr(other), ser, soft=soft)
            return
        o = _state(other)
        diff = {k: (before[k], o[k]) for k in before if before[k] != o[k]}
        if diff:
            field = sorted(diff)[0]
            rec.fail(f"C15/field-lost/uri-read-without-factory-defaults/{field}", f"the URI does not carry {sorted(diff)} (only a reader sharing the factory's defaults gets them back)", "roundtrip", case,
                     {k: repr(v[1]) for k, v in diff.items()}, {k: repr(v[0]) for k, v in diff.items()}, soft=soft)
            return
    diff = {k: (before[k], after[k]) for k in before if before[k] != after[k]}
    if diff:
        field = sorted(diff)[0]
        rec.fail(f"C15/field-lost/{fmt}/{field}", f"round trip through to_{fmt}() changes {sorted(diff)}", "roundtrip", case, {k: repr(v[1]) for k, v in diff.items()}, {k: repr(v[0]) for k, v in diff.items()}, soft=soft)
        return
    for t in TIMES:
        a, b = otp.generate(t).token, back.generate(t).token
        exp = R.totp(case["key"], t, before["period"], before["digits"], before["alg"])
        if not (a == b == exp):
            rec.fail(f"C15/tokens-differ/{fmt}", "object loaded back generates different codes", "roundtrip", case, [a, b], exp, soft=soft)
            return
    if fmt == "uri" and otp.label:
        # an explicitly passed label / issuer is the one written for this export
        st, other = call(lambda: F.from_uri(otp.to_uri(label="other@example.org", issuer="Other Inc")))
        if st == "err" or (other.label, other.issuer) != ("other@example.org", "Other Inc"):
            rec.fail("C15/to-uri-arguments-ignored", "to_uri(label=, issuer=) does not write the label / issuer it was given", "roundtrip", case, repr(other) if st == "err" else (other.label, other.issuer), ("other@example.org", "Other Inc"), soft=soft)
            return
    if fmt == "uri" and before["issuer"] and "issuer=" in ser:
        # the older provisioning form carries the issuer only as the label prefix ("Issuer:account", no issuer= parameter): same configuration
        head, _, query = ser.partition("?")
        legacy = head + "?" + "&".join(p for p in query.split("&") if not p.startswith("issuer="))
        st, old_style = call(F.from_uri, legacy)
        if st == "err" or _state(old_style) != after:
            rec.fail("C15/uri-label-prefix-issuer", "a provisioning URI whose issuer appears only as the label prefix does not load with that issuer", "roundtrip", dict(case, legacy=legacy),
                     repr(old_style)[:100] if st == "err" else _state(old_style), after, soft=soft)
            return
    if fmt != "uri" and case.get("secrets"):
        d = json.loads(ser) if isinstance(ser, str) else ser
        if "key" in d or "enckey" not in d:
            rec.fail("C15/wallet-not-used", "application secrets configured but the serialised key is not encrypted", "roundtrip", case, sorted(d), "enckey", soft=soft)
            return
        # encrypt=False is the documented way to export the plain key from such a factory (for transfer to a party without the secret)
        from passlib.totp import TOTP

        plain = otp.to_json(encrypt=False) if fmt == "json" else otp.to_dict(encrypt=False)
        dp = json.loads(plain) if isinstance(plain, str) else plain
        if "enckey" in dp or "key" not in dp:
            rec.fail(f"C15/encrypt-false-ignored/{fmt}", "to_json/to_dict(encrypt=False) still wraps the key with the application secret", "roundtrip", case, sorted(dp), "key", soft=soft)
            return
        G0 = _factory(dict(case, secrets=None))  # the same configuration WITHOUT the secret
        st, other = call(G0.from_source, plain)
        if st == "err" or _state(other) != _state(otp):
            rec.fail(f"C15/plain-export-not-loadable/{fmt}", "the encrypt=False export does not load (with the same configuration) under a factory without the secret", "roundtrip", case, repr(other)[:120], before, soft=soft)
            return
    # handing the OBJECT to another factory transfers the configuration and the plain key, whatever secrets either side has
    from passlib.totp import TOTP as _T

    G0 = _factory(dict(case, secrets=None))
    for G in (G0, G0.using(secrets={"9": "another-application-secret"})):
        if getattr(G, "wallet", None) is not None:
            install_standin_aes()
        st, moved = call(G.from_source, otp)
        want = _state(otp)
        if st == "err" or (G.wallet is not None and not isinstance(moved, G)) or _state(moved) != want:
            rec.fail("C15/object-transfer", "from_source(<TOTP object of another factory>) fails or changes the configuration", "roundtrip", case, repr(moved)[:160], want, soft=soft)
            return
        if moved.generate(TIMES[0]).token != otp.generate(TIMES[0]).token:
            rec.fail("C15/object-transfer", "the transferred object generates other codes", "roundtrip", case, None, None, soft=soft)
            return


@oracle(PROPERTY, "corrupt")
def o_corrupt(rec: Recorder, case, soft=False):
    """case: {source (str|dict), kind, expect: 'ValueError'|'NotImplementedError'}"""
    from passlib.totp import TOTP

    src, kind = case["source"], case["kind"]
    loader = {"from_uri": TOTP.from_uri, "from_json": TOTP.from_json, "from_dict": TOTP.from_dict}.get(case.get("via"), TOTP.from_source)
    st, r = call(loader, src)
    want = NotImplementedError if case.get("expect") == "NotImplementedError" else ValueError
    if st == "ok":
        rec.fail(f"C15/corrupt-accepted/{kind}", f"inconsistent or incomplete TOTP source accepted ({kind})", "corrupt", case, _state(r), want.__name__, soft=soft)
    elif not isinstance(r, want):
        rec.fail(f"C15/corrupt-wrong-error/{kind}/{type(r).__name__}", f"corrupted source ({kind}) raised {type(r).__name__} instead of {want.__name__}", "corrupt", case, repr(r), want.__name__, soft=soft)


@oracle(PROPERTY, "wallet")
def o_wallet(rec: Recorder, case, soft=False):
    """case: {secrets:{tag:secret}, default_tag?, cost, key, other_cost?}"""
    from passlib.totp import AppWallet

    mode = install_standin_aes()
    rec.count(f"aes_backend:{mode}")
    secrets, key, cost = case["secrets"], case["key"], case["cost"]
    w = AppWallet(secrets=secrets, default_tag=case.get("default_tag"), encrypt_cost=cost)
    tags = list(secrets)
    if case.get("default_tag") is not None:
        want_default = case["default_tag"]
    elif all(str(t).isdigit() for t in tags):
        want_default = str(max(tags, key=lambda t: int(t)))
    else:
        want_default = max(str(t) for t in tags)
    if w.default_tag != want_default:
        rec.fail("C15/wallet/default-tag", "AppWallet picks the wrong default tag (numeric tags sort numerically, others lexically)", "wallet", case, w.default_tag, want_default, soft=soft)
        return
    enc = w.encrypt_key(key)
    if enc.get("t") != want_default or enc.get("c") != cost:
        rec.fail("C15/wallet/enc-meta", "encrypted key does not record the default tag / cost", "wallet", case, enc, [want_default, cost], soft=soft)
        return
    k, recrypt = w.decrypt_key(json.loads(json.dumps(enc)))
    if k != key or recrypt is not False:
        rec.fail("C15/wallet/roundtrip", "decrypt(encrypt(k)) != k (or needs_recrypt set for a fresh key)", "wallet", case, [k.hex(), recrypt], [key.hex(), False], soft=soft)
        return
    # under every other listed secret (as default) the key made under tag T still decrypts, flagged for re-encryption
    for tag in tags:
        tag = str(tag)
        w2 = AppWallet(secrets=secrets, default_tag=tag, encrypt_cost=case.get("other_cost", cost))
        k2, recrypt2 = w2.decrypt_key(enc)
        exp_recrypt = tag != want_default or case.get("other_cost", cost) != cost
        if k2 != key or recrypt2 is not exp_recrypt:
            rec.fail("C15/wallet/other-default", "key does not decrypt under a wallet with another default tag/cost, or needs_recrypt is wrong", "wallet", case, [k2.hex(), recrypt2, tag], [key.hex(), exp_recrypt], soft=soft)
            return
    bad = dict(enc, t="zz-unknown")
    st, r = call(w.decrypt_key, bad)
    if not (st == "err" and isinstance(r, KeyError)):
        rec.fail("C15/wallet/unknown-tag", "unknown tag does not raise KeyError", "wallet", case, repr(r), "KeyError", soft=soft)
    st, r = call(w.decrypt_key, dict(enc, v=2))
    if not (st == "err" and isinstance(r, ValueError)):
        rec.fail("C15/wallet/unknown-version", "unknown enckey version does not raise ValueError", "wallet", case, repr(r), "ValueError", soft=soft)


ORACLES = {"roundtrip": o_roundtrip, "corrupt": o_corrupt, "wallet": o_wallet}


# ---- strategies / tasks -------------------------------------------------------------------------------
def _texts():
    from hypothesis import strategies as st

    hostile = st.sampled_from(list(" @/%&=+?#;,\"'.-_~!$*()[]{}|\\^`<>") + ["é", "ü", "日", "本", "Ω", "\U0001F600", " ", "%20", "%3A", "+", "a", "Z", "0"])
    body = st.lists(st.one_of(hostile, st.sampled_from(list("abcXYZ019"))), min_size=1, max_size=12).map("".join)
    return body.map(lambda s: s if s.strip() else "x" + s).filter(lambda s: ":" not in s)


def _roundtrip_cases():
    from hypothesis import strategies as st

    txt = _texts()

    @st.composite
    def s(draw):
        klen = draw(st.sampled_from([10, 16, 20, 32, 64, 11]))
        cd = {}
        if draw(st.booleans()):
            cd = {"digits": draw(st.sampled_from([None, 6, 8, 10])), "alg": draw(st.sampled_from([None, "sha1", "sha256", "sha512"])),
                  "period": draw(st.sampled_from([None, 30, 60, 1])), "issuer": draw(st.one_of(st.none(), txt))}
        case = {
            "key": draw(st.binary(min_size=klen, max_size=klen)),
            "alg": draw(st.sampled_from([None, "sha1", "sha256", "sha512"])),
            "digits": draw(st.sampled_from([None, 6, 7, 8, 10])),
            "period": draw(st.sampled_from([None, 30, 60, 1, 3600, 29])),
            "label": draw(st.one_of(st.none(), txt, txt.map(lambda s: " " + s + " "))),
            "issuer": draw(st.one_of(st.none(), txt)),
            "class_defaults": cd,
            "fmt": draw(st.sampled_from(["uri", "json", "dict"])),
            "via": draw(st.sampled_from(["from_source", "from_source", "direct", "bytes"])),
        }
        if case["fmt"] != "uri" and draw(st.integers(0, 3)) == 0:
            case["secrets"] = draw(st.sampled_from([{"1": "sekrit-one"}, {"1": "a" * 30, "2": "b" * 30}, {"2016-01-01": "x" * 20, "2017-05-05": "y" * 20}]))
            case["encrypt_cost"] = draw(st.sampled_from([None, 1, 4]))
        if case["fmt"] == "dict" and case["via"] == "bytes":
            case["via"] = "from_source"
        return case

    return s()


def t_roundtrip(rec, seed, tier, shard):
    n = 2000 if tier == "quick" else 15000

    def body(case):
        rec.ev()
        reserved = any(c in (case["label"] or "") + (case["issuer"] or "") for c in " @/%&=+?#;,") or not ((case["label"] or "") + (case["issuer"] or "")).isascii()
        cd = {k: v for k, v in (case["class_defaults"] or {}).items() if v is not None}
        if reserved or cd or case["alg"] not in (None, "sha1") or case["digits"] not in (None, 6) or case["period"] not in (None, 30):
            rec.nt("rt", case["fmt"], case["via"], case["label"], case["issuer"], case["alg"], case["digits"], case["period"], sorted(cd.items(), key=str), bool(case.get("secrets")))
        rec.count(f"roundtrip:{case['fmt']}:{'class-defaults' if cd else 'plain'}")
        rec.sample(f"roundtrip:{case['fmt']}", case)
        o_roundtrip(rec, case)

    hyp_campaign(rec, body, _roundtrip_cases(), n, seed + shard)


def corrupted_sources():
    from passlib.totp import TOTP

    key32 = "S3JDVB7QD2R7JPXX"
    good = f"otpauth://totp/Example:alice@google.com?secret={key32}&issuer=Example"
    out = [
        ("conflicting-issuer", f"otpauth://totp/Provider1:alice?secret={key32}&issuer=Provider2"),
        ("conflicting-issuer-case", f"otpauth://totp/Provider1:alice?secret={key32}&issuer=provider1"),
        ("conflicting-issuer-blank", f"otpauth://totp/Provider1:alice?secret={key32}&issuer=Provider1%20"),
        ("duplicate-param", f"otpauth://totp/alice?secret={key32}&secret={key32}"),
        ("duplicate-label-param", f"otpauth://totp/alice?secret={key32}&label=mallory"),
        ("duplicate-label-param-same", f"otpauth://totp/alice?secret={key32}&label=alice"),
        ("duplicate-param-digits", f"otpauth://totp/alice?secret={key32}&digits=6&digits=8"),
        ("duplicate-issuer", f"otpauth://totp/alice?secret={key32}&issuer=a&issuer=b"),
        ("missing-secret", "otpauth://totp/alice?issuer=Example"),
        ("empty-secret", "otpauth://totp/alice?secret=&issuer=Example"),
        ("missing-label", f"otpauth://totp/?secret={key32}"),
        ("missing-label-noslash", f"otpauth://totp?secret={key32}"),
        ("too-many-colons", f"otpauth://totp/a:b:c?secret={key32}"),
        ("wrong-scheme", good.replace("otpauth://", "otpauth2://")),
        ("unknown-type", good.replace("//totp/", "//xotp/")),
        ("hotp-type", good.replace("//totp/", "//hotp/") + "&counter=1"),
        ("malformed-digits", good + "&digits=six"),
        ("malformed-period", good + "&period=3o"),
        ("digits-out-of-range", good + "&digits=12"),
        ("digits-too-small", good + "&digits=5"),
        ("period-zero", good + "&period=0"),
        ("period-negative", good + "&period=-30"),
        ("bad-base32-secret", "otpauth://totp/alice?secret=1111!!!!"),
        ("unknown-algorithm", good + "&algorithm=SHA3"),
        ("json-not-dict", "[1,2,3]"),
        ("json-garbage", "{not json"),
        ("json-empty", ""),
        ("dict-no-type", {"v": 1, "key": key32}),
        ("dict-unknown-type", {"v": 1, "type": "xotp", "key": key32}),
        ("dict-hotp-type", {"v": 1, "type": "hotp", "key": key32}),
        ("dict-missing-version", {"type": "totp", "key": key32}),
        ("dict-version-zero", {"v": 0, "type": "totp", "key": key32}),
        ("dict-version-future", {"v": 2, "type": "totp", "key": key32}),
        ("dict-version-none", {"v": None, "type": "totp", "key": key32}),
        ("dict-missing-key", {"v": 1, "type": "totp"}),
        ("dict-bad-digits", {"v": 1, "type": "totp", "key": key32, "digits": 11}),
        ("dict-bad-key", {"v": 1, "type": "totp", "key": "!!!!"}),
        ("dict-bad-period", {"v": 1, "type": "totp", "key": key32, "period": 0}),
        ("dict-label-colon", {"v": 1, "type": "totp", "key": key32, "label": "a:b"}),
        ("dict-issuer-colon", {"v": 1, "type": "totp", "key": key32, "issuer": "a:b"}),
    ]
    res = []
    for kind, src in out:
        expect = "NotImplementedError" if "hotp" in kind else "ValueError"
        res.append({"kind": kind, "source": src, "expect": expect})
        if isinstance(src, dict):
            res.append({"kind": kind + "/json", "source": json.dumps(src), "expect": expect})
        elif src.startswith("otpauth"):
            res.append({"kind": kind + "/bytes", "source": src.encode(), "expect": expect})
    # the dedicated loaders refuse what is not theirs: other URI schemes, JSON values that are not objects
    tail = good[len("otpauth"):]
    for scheme in ("http", "https", "otpauths", "totp", "", "file"):
        res.append({"kind": f"uri-scheme/{scheme or 'none'}", "source": (scheme + tail) if scheme else tail[1:], "expect": "ValueError", "via": "from_uri"})
    for text in ("123456", "null", "true", "[]", '"type"', '["type"]', "{}", '{"v": 1}', "1.5"):
        for via in ("from_json", None):
            res.append({"kind": f"json-not-an-object/{text}", "source": text, "expect": "ValueError", "via": via})
    for obj in (123456, None, True, [], "type", ["type"]):
        res.append({"kind": f"dict-not-a-dict/{obj!r}", "source": obj, "expect": "ValueError", "via": "from_dict"})
    return res


def t_corrupt(rec, seed, tier):
    from passlib.totp import TOTP

    # factory defaults are validated like instance values: a default issuer / label that could never be written to a URI is refused up front
    for kw in ({"issuer": "a:b"}, {"issuer": ":"}, {"digits": 11}, {"digits": 5}, {"period": 0}, {"alg": "sha3"}):
        rec.ev()
        st, r = call(TOTP.using, **kw)
        if not (st == "err" and isinstance(r, (ValueError, TypeError))):
            rec.fail(f"C15/factory-default-unchecked/{sorted(kw)[0]}", f"TOTP.using({kw}) is accepted", "corrupt", {"kind": "factory-default", "source": "otpauth://totp/x?secret=AAAA", "kw": kw}, repr(r), "ValueError", soft=True)
    for case in corrupted_sources():
        rec.ev()
        rec.nt("corrupt", case["kind"])
        rec.count(f"corrupt:{case['kind'].split('/')[0]}")
        rec.sample("corrupt", case)
        o_corrupt(rec, case, soft=True)
    rec.subrecord("corrupted-sources", enumerated=True)


def t_corrupt_hyp(rec, seed, tier):
    """generated corruptions of a valid URI: drop/duplicate a parameter, conflicting issuer prefix"""
    from hypothesis import strategies as st

    n = 1000 if tier == "quick" else 6000
    txt = _texts()

    @st.composite
    def cases(draw):
        label, issuer, issuer2 = draw(txt), draw(txt), draw(txt)
        q = urllib.parse.quote
        kind = draw(st.sampled_from(["conflicting-issuer", "duplicate-param", "missing-secret"]))
        base = f"otpauth://totp/{q(issuer, safe='@')}:{q(label, safe='@')}?secret=S3JDVB7QD2R7JPXX"
        if kind == "conflicting-issuer":
            if draw(st.booleans()) and issuer.swapcase() != issuer:
                issuer2 = issuer.swapcase()
            if issuer2 == issuer:
                issuer2 += "x"
            src = base + "&issuer=" + q(issuer2, safe="")
        elif kind == "duplicate-param":
            p = draw(st.sampled_from(["secret=S3JDVB7QD2R7JPXX", "digits=6", "period=30", "algorithm=SHA1", "issuer=" + q(issuer, safe=""), "label=" + q(label, safe=""), "label=" + q(issuer2, safe="")]))
            src = base + "&issuer=" + q(issuer, safe="") + ("&digits=6&period=30&algorithm=SHA1" if "=" in p else "") + "&" + p
        else:
            src = base.replace("?secret=S3JDVB7QD2R7JPXX", "?issuer=" + q(issuer, safe=""))
        return {"kind": kind, "source": src, "expect": "ValueError"}

    def body(case):
        rec.ev()
        rec.nt("corrupt-hyp", case["kind"], case["source"])
        rec.count(f"corrupt-hyp:{case['kind']}")
        rec.sample(f"corrupt-hyp:{case['kind']}", case)
        o_corrupt(rec, case)

    hyp_campaign(rec, body, cases(), n, seed)


def t_wallet(rec, seed, tier):
    from hypothesis import strategies as st

    n = 400 if tier == "quick" else 2500
    tagsets = st.sampled_from([["1"], ["1", "2"], ["2", "10"], ["9", "10", "100"], ["a", "b"], ["2016-01-01", "2016-05-16"], ["1", "b"], ["10", "9a"], ["01", "1x", "1"], [1, 2], ["A", "a"]])

    @st.composite
    def cases(draw):
        tags = draw(tagsets)
        secrets = {t: draw(st.text(st.sampled_from("abcdefXYZ0123456789-_"), min_size=1, max_size=30)) for t in tags}
        case = {"secrets": secrets, "cost": draw(st.sampled_from([0, 1, 4, 6])), "key": draw(st.binary(min_size=10, max_size=64))}
        if draw(st.booleans()):
            case["default_tag"] = str(draw(st.sampled_from(tags)))
        if draw(st.booleans()):
            case["other_cost"] = draw(st.sampled_from([0, 1, 4, 6]))
        return case

    def body(case):
        rec.ev()
        rec.nt("wallet", sorted(map(str, case["secrets"])), case.get("default_tag"), case["cost"], case.get("other_cost"), len(case["key"]))
        rec.count(f"wallet:{len(case['secrets'])}-secrets")
        rec.sample("wallet", case)
        o_wallet(rec, case)

    hyp_campaign(rec, body, cases(), n, seed, shrink_budget=15)


def tasks(tier):
    ts = [{"name": f"roundtrip-{i}", "fn": "t_roundtrip", "kw": {"shard": i}} for i in range(4 if tier == "quick" else 8)]
    ts += [{"name": "corrupt", "fn": "t_corrupt"}, {"name": "corrupt-hyp", "fn": "t_corrupt_hyp"}, {"name": "wallet", "fn": "t_wallet"}]
    return ts
