"""C14 -- token matching honours the window and never accepts a code twice."""

from __future__ import annotations

import itertools
import re

from ..common import Recorder, Violation, call, hyp_campaign, hyp_machine, machine_fail, machine_guard, oracle
from ..refs import hotp as R

PROPERTY = "C14"
LEVEL = "exploration"
RULE = (
    "(a) exhaustive small worlds: period 1..4, window 0..2*period+1, skew -period-1..period+1, last_counter in {None, c-3..c+3}, "
    "every time 0..12*period, token = the code of every counter 0..18 + a non-matching code + malformed codes, for 1 key "
    "(thorough 3); (b) Hypothesis over large periods/windows/times, int and decorated-text tokens, colliding codes found by search; "
    "(c) rule-based state machine: clock + last_counter as the application stores it, rules: advance clock, submit "
    "current/previous/stale/future/replayed/malformed/int/decorated code with generated window and skew; accepted matches feed "
    "last_counter back. Oracle: reference search start=max(last,-1 if None, floor((t+skew-window)/period), 0) .. "
    "end=floor((t+skew+window)/period), earliest first over the independent HOTP; outcome in {match(counter), used, invalid, "
    "malformed} must equal passlib's; TotpMatch fields as documented; machine invariant: accepted counters strictly increase and a "
    "replayed accepted code is never accepted. Non-trivial = matching counter on a window edge or equal to last_counter, or a "
    "token colliding on two counters in the window."
)
ASSUMPTIONS = ["vpchk/refs/hotp.py (RFC vectors checked at start-up)", "time values are non-negative (documented domain)"]
LEVEL_TEXT = (
    "Complete enumeration of small (period, window, skew, last counter, time, token) worlds against a reference search over an "
    "independent HOTP, generated large cases, and a rule-based state machine over attempt histories with a per-step invariant."
)
LEVEL_NOTE = "Trusted: the 15-line reference matcher in this file, vpchk/refs/hotp.py, Hypothesis."
TECHNIQUE = "exhaustive small-world enumeration + Hypothesis + rule-based state machine against a reference matcher"
#: thorough tier: seed-dependent tasks are repeated under this many derived seeds (run.py); the listed task functions enumerate fixed domains
THOROUGH_REPS = 4
DETERMINISTIC_FNS = ('t_small_world',)

KEYS = [b"12345678901234567890", bytes(range(7, 39)), b"\x00\xff" * 10]
_CLEAN = re.compile(r"\s|[-=]")


def selftest():
    R.selftest()


def ref_normalize(token, digits):
    """-> normalised code or None (malformed)"""
    if isinstance(token, bool):
        return None
    if isinstance(token, int):
        s = "%0*d" % (digits, token)
        return s if len(s) == digits else None
    if isinstance(token, bytes):
        try:
            token = token.decode("utf-8")
        except UnicodeDecodeError:
            return None
    if not isinstance(token, str):
        return None
    s = _CLEAN.sub("", token)
    if not s or not all(c in "0123456789" for c in s) or len(s) != digits:
        return None
    return s


def unspecified_token(token):
    """right-length strings of non-ASCII decimal digits: the statement calls a token malformed when 'it is not a code of the
    right length'; whether such a string is a malformed or merely a non-matching code is not specified -> either is accepted"""
    if isinstance(token, bytes):
        try:
            token = token.decode("utf-8")
        except UnicodeDecodeError:
            return False
    if not isinstance(token, str):
        return False
    s = _CLEAN.sub("", token)
    return bool(s) and s.isdigit() and not s.isascii()


def ref_match(key, alg, digits, period, token, t, window, skew, last):
    s = ref_normalize(token, digits)
    if s is None:
        return ("malformed",)
    start = max(last if last is not None else -1, (t + skew - window) // period, 0)
    end = (t + skew + window) // period
    found = None
    for c in range(start, end + 1):
        if R.hotp(key, c, digits, alg) == s:
            found = c
            break
    if found is None:
        return ("invalid",)
    if last is not None and found == last:
        return ("used",)
    return ("match", found)


def run_match(otp, token, t, window, skew, last):
    from passlib import exc

    st, r = call(otp.match, token, t, window=window, skew=skew, last_counter=last)
    if st == "ok":
        return ("match", r.counter), r
    if isinstance(r, exc.UsedTokenError):
        return ("used",), r
    if isinstance(r, exc.MalformedTokenError):
        return ("malformed",), r
    if isinstance(r, exc.InvalidTokenError):
        return ("invalid",), r
    return ("raised", type(r).__name__, str(r)[:80]), r


@oracle(PROPERTY, "match")
def o_match(rec: Recorder, case, soft=False):
    from passlib.totp import TOTP

    key, alg, digits, period = case["key"], case.get("alg", "sha1"), case.get("digits", 6), case["period"]
    token, t, window, skew, last = case["token"], case["time"], case["window"], case["skew"], case["last"]
    otp = TOTP(key=key, format="raw", alg=alg, digits=digits, period=period)
    exp = ref_match(key, alg, digits, period, token, t, window, skew, last)
    got, obj = run_match(otp, token, t, window, skew, last)
    if got != exp and unspecified_token(token) and got[0] in ("invalid", "malformed"):
        rec.count("unicode_digits_unspecified")
        return
    if got != exp:
        non_ascii_digits = isinstance(token, str) and exp == ("malformed",) and got[0] in ("invalid", "raised")
        sub = "unicode-digits" if non_ascii_digits and not token.isascii() else f"{exp[0]}-vs-{got[0]}"
        rec.fail(f"C14/outcome/{sub}", f"match() outcome {got} differs from the documented search {exp}", "match", case, got, exp, soft=soft)
        return
    # TOTP.verify(token, source, ...) is the documented one-call route: same search, same outcome, for every kind of source
    if len(key) >= 10 and case.get("route", 0):
        from passlib import exc

        src = [otp, otp.to_json(), otp.to_dict(), otp.to_uri(label="a")][case["route"] % 4]
        F = TOTP.using(digits=digits, alg=alg, period=period) if isinstance(src, str) and src.startswith("otpauth") else TOTP
        st, r = call(F.verify, token, src, time=t, window=window, skew=skew, last_counter=last)
        got2 = ("match", r.counter) if st == "ok" else (("used",) if isinstance(r, exc.UsedTokenError) else ("malformed",) if isinstance(r, exc.MalformedTokenError) else
                                                        ("invalid",) if isinstance(r, exc.InvalidTokenError) else ("raised", type(r).__name__, str(r)[:80]))
        if got2 != got:
            rec.fail("C14/verify-route", f"TOTP.verify(token, source, ...) gives {got2} where match() on the same object gives {got}", "match", case, got2, got, soft=soft)
            return
    if got[0] == "match":
        c = got[1]
        want = {"counter": c, "time": t, "expected_counter": t // period, "skipped": c - t // period, "expire_time": (c + 1) * period,
                "cache_time": (c + 1) * period + window, "cache_seconds": period + window}
        have = {k: getattr(obj, k) for k in want}
        if have != want or tuple(obj) != (c, t):
            rec.fail("C14/match-fields", "TotpMatch fields differ from their documented values", "match", case, have, want, soft=soft)
    if got[0] == "used" and getattr(obj, "expire_time", None) != (last + 1) * period:
        rec.fail("C14/used-expire-time", "UsedTokenError.expire_time is not the end of the used counter's period", "match", case, getattr(obj, "expire_time", None), (last + 1) * period, soft=soft)


# ---- machine --------------------------------------------------------------------------------------
def apply_history(rec, hist, soft=False):
    """hist = {key, period, digits, ops:[["tick", dt] | ["submit", kind, offset, window, skew]]}"""
    from passlib.totp import TOTP

    key, period, digits = hist["key"], hist["period"], hist.get("digits", 6)
    otp = TOTP(key=key, format="raw", digits=digits, period=period)
    clock = hist.get("t0", 1000)
    last = None
    accepted = []  # (counter, token)
    nontrivial = False
    for i, op in enumerate(hist["ops"]):
        if op[0] == "tick":
            clock += op[1]
            continue
        _, kind, off, window, skew = op
        cur = clock // period
        if kind == "code":
            token = R.hotp(key, max(0, cur + off), digits)
        elif kind == "replay" and accepted:
            token = accepted[off % len(accepted)][1]
        elif kind == "int":
            token = int(R.hotp(key, max(0, cur + off), digits))
        elif kind == "decorated":
            code = R.hotp(key, max(0, cur + off), digits)
            token = " " + code[:3] + "-" + code[3:] + " "
        elif kind == "malformed":
            token = ["", "12345", "1234567", "abcdef", "12 34", "１２３４５６"][off % 6]
        else:
            token = R.hotp(key, max(0, cur + off), digits)
        exp = ref_match(key, "sha1", digits, period, token, clock, window, skew, last)
        got, obj = run_match(otp, token, clock, window, skew, last)
        sub = {"ops": hist["ops"][: i + 1], **{k: v for k, v in hist.items() if k != "ops"}}
        if got != exp and unspecified_token(token) and got[0] in ("invalid", "malformed"):
            rec.count("unicode_digits_unspecified")
            continue
        if got != exp:
            rec.fail(f"C14/machine/outcome/{exp[0]}-vs-{got[0]}", f"step {i}: match() outcome {got} differs from the documented search {exp}", "history", sub, got, exp, soft=soft)
            return nontrivial
        if got[0] == "match":
            c = got[1]
            if last is not None and c <= last:
                rec.fail("C14/machine/counter-not-increasing", "an accepted counter is not later than the last used one", "history", sub, c, last, soft=soft)
                return nontrivial
            norm = ref_normalize(token, digits)
            if any(c == ac for ac, _ in accepted):
                rec.fail("C14/machine/code-accepted-twice", "a counter was accepted twice", "history", sub, c, None, soft=soft)
                return nontrivial
            accepted.append((c, norm))
            last = c
        if kind == "replay" and accepted:
            nontrivial = True
    return nontrivial


@oracle(PROPERTY, "history")
def o_history(rec, case, soft=False):
    apply_history(rec, case, soft=soft)


ORACLES = {"match": o_match, "history": o_history}


def make_machine(rec, seed):
    from hypothesis import strategies as st
    from hypothesis.stateful import RuleBasedStateMachine, initialize, rule

    class MatchMachine(RuleBasedStateMachine):
        def __init__(self):
            super().__init__()
            self.hist = None

        @initialize(key=st.sampled_from(KEYS), period=st.sampled_from([1, 5, 30, 60]), t0=st.integers(0, 5000))
        def init(self, key, period, t0):
            self.hist = {"key": key, "period": period, "digits": 6, "t0": t0, "ops": []}

        def _step(self, op):
            if machine_guard(self) or self.hist is None:
                return
            self.hist["ops"].append(op)
            rec.ev()
            rec.count(f"machine:{op[0]}:{op[1] if op[0] == 'submit' else ''}")
            try:
                nt = apply_history(rec, self.hist)
            except Violation as v:
                machine_fail(self, v)
            if nt:
                rec.nt("hist", self.hist["key"][:2], self.hist["period"], tuple(map(tuple, self.hist["ops"])))

        @rule(dt=st.one_of(st.integers(0, 3), st.integers(0, 200)))
        def tick(self, dt):
            self._step(["tick", dt])

        @rule(kind=st.sampled_from(["code", "code", "replay", "replay", "int", "decorated", "malformed"]), off=st.integers(-3, 3),
              window=st.sampled_from([0, 1, 29, 30, 31, 60, 90]), skew=st.sampled_from([0, 0, -30, 30, -1, 1]))
        def submit(self, kind, off, window, skew):
            self._step(["submit", kind, off, window, skew])

        def teardown(self):
            if self.hist and len(self.hist["ops"]) > 4:
                rec.sample("history", {**self.hist, "ops": self.hist["ops"][:10]})

    return MatchMachine


# ---- tasks ------------------------------------------------------------------------------------------
def t_small_world(rec, seed, tier, period, key_index):
    key = KEYS[key_index]
    codes = [R.hotp(key, c, 6) for c in range(0, 19)]
    other = next(("%06d" % v) for v in range(10**6) if ("%06d" % v) not in codes)
    n = nt = 0
    tmax = 12 * period
    for window in range(0, 2 * period + 2):
        for skew in range(-period - 1, period + 2):
            for t in range(0, tmax + 1):
                c = t // period
                for last in [None] + [x for x in range(c - 3, c + 4) if x >= 0]:
                    toks = set()
                    # codes for the counters around the window plus extremes
                    lo = max(0, (t + skew - window) // period - 1)
                    hi = min(18, (t + skew + window) // period + 1)
                    for cc in range(lo, hi + 1):
                        if 0 <= cc <= 18:
                            toks.add(codes[cc])
                    toks.add(other)
                    if (t + window) % 5 == 0:
                        toks.update(["12345", int(codes[c % 19]), " " + codes[c % 19][:3] + "-" + codes[c % 19][3:], "abcdef"])
                    for tok in sorted(toks, key=str):
                        case = {"key": key, "period": period, "token": tok, "time": t, "window": window, "skew": skew, "last": last}
                        o_match(rec, case, soft=True)
                        n += 1
                        e = ref_match(key, "sha1", 6, period, tok, t, window, skew, last)
                        if e[0] == "used" or (e[0] == "match" and e[1] in ((t + skew - window) // period, (t + skew + window) // period)):
                            nt += 1
                            if nt % 5000 == 1:
                                rec.sample("small-world", case)
    rec.ev(n)
    rec.nt_bulk(nt)
    rec.count(f"small-world:period={period}", n)
    rec.subrecord(f"small-world:period={period}:key={key_index}", exhaustive=True, evaluations=n)


def t_hyp(rec, seed, tier):
    from hypothesis import strategies as st

    n = 2500 if tier == "quick" else 40000

    @st.composite
    def cases(draw):
        key = draw(st.sampled_from(KEYS))
        period = draw(st.sampled_from([1, 7, 30, 60, 3600]))
        digits = draw(st.sampled_from([6, 6, 8, 10]))
        alg = draw(st.sampled_from(["sha1", "sha1", "sha256"]))
        t = draw(st.one_of(st.integers(0, 1 << 34), st.integers(0, 5 * period)))
        window = draw(st.one_of(st.sampled_from([0, period - 1, period, period + 1, 3 * period]), st.integers(0, 5 * period)))
        skew = draw(st.one_of(st.just(0), st.integers(-3 * period, 3 * period)))
        c = t // period
        last = draw(st.one_of(st.none(), st.integers(max(0, c - 4), c + 4)))
        off = draw(st.integers(-6, 6))
        code = R.hotp(key, max(0, c + off), digits, alg)
        tk = draw(st.sampled_from(["str", "str", "int", "decor", "bytes", "bad-len", "bad-char", "uni-space", "other"]))
        token = {"str": code, "int": int(code), "decor": f" {code[:2]}-{code[2:]}\t", "bytes": code.encode(), "bad-len": code[:-1], "bad-char": code[:-1] + "x",
                 "uni-space": " " + code + " ", "other": "%0*d" % (digits, (int(code) + 1) % 10**digits)}[tk]
        return {"key": key, "alg": alg, "digits": digits, "period": period, "token": token, "time": t, "window": window, "skew": skew, "last": last, "token_kind": tk,
                "route": draw(st.sampled_from([0, 0, 1, 2, 3, 4]))}

    def body(case):
        rec.ev()
        e = ref_match(case["key"], case["alg"], case["digits"], case["period"], case["token"], case["time"], case["window"], case["skew"], case["last"])
        rec.count(f"hyp:{e[0]}:{case['token_kind']}")
        if e[0] in ("used", "match"):
            rec.nt("hyp", case["key"][:2], case["alg"], case["digits"], case["period"], repr(case["token"]), case["time"], case["window"], case["skew"], case["last"])
        rec.sample(f"hyp:{e[0]}", case)
        o_match(rec, case)

    hyp_campaign(rec, body, cases(), n, seed)


def t_collisions(rec, seed, tier):
    """codes that occur at two counters inside one window: the earliest counter must win"""
    key = KEYS[0]
    top = 300000 if tier == "quick" else 2000000
    seen = {}
    pairs = []
    for c in range(top):
        code = R.hotp(key, c, 6)
        p = seen.get(code)
        if p is not None and c - p <= 6:
            pairs.append((p, c, code))
        seen[code] = c
    n = 0
    for p, c, code in pairs[:40]:
        period = 30
        for t in (p * period, c * period, (p + c) // 2 * period + 3):
            for last in (None, p - 1, p, c - 1):
                if last is not None and last < 0:
                    continue
                case = {"key": key, "period": period, "token": code, "time": t, "window": 7 * period, "skew": 0, "last": last}
                o_match(rec, case, soft=True)
                rec.nt("collision", p, c, t, last)
                n += 1
        rec.sample("collision", {"counters": [p, c], "code": code})
    rec.ev(n)
    rec.count("collision-pairs", len(pairs))


def t_machine(rec, seed, tier, shard):
    n, steps = {"quick": (120, 25), "thorough": (400, 50)}[tier]
    hyp_machine(rec, make_machine(rec, seed), n, steps, seed + shard, shrink_budget=20)


def tasks(tier):
    ts = []
    for period in (1, 2, 3, 4):
        for ki in range(1 if tier == "quick" else 3):
            ts.append({"name": f"small-world-p{period}-k{ki}", "fn": "t_small_world", "kw": {"period": period, "key_index": ki}})
    ts += [{"name": "hyp", "fn": "t_hyp"}, {"name": "collisions", "fn": "t_collisions"}]
    ts += [{"name": f"machine-{i}", "fn": "t_machine", "kw": {"shard": i}} for i in range(4 if tier == "quick" else 8)]
    return ts
