"""C16 -- htpasswd/htdigest files stay a faithful user database under any edit history."""

from __future__ import annotations

import itertools
import os
import shutil
import tempfile

from ..common import Recorder, Violation, call, hyp_machine, machine_fail, machine_guard, oracle

PROPERTY = "C16"
LEVEL = "exploration"
RULE = (
    "Rule-based state machines for HtpasswdFile and HtdigestFile over 4 users (one non-ASCII, one with inner blanks, one long), 2 "
    "realms, 3 passwords; initial content from a grammar (records, comments, blank and whitespace-only lines, duplicate users, "
    "CRLF, missing final newline; malformed lines must raise on load); rules: set_password, set_hash (real hashes), delete, "
    "delete_realm, check_password (right/wrong/unknown), get_hash, users/realms, to_string, save, save(path), load, load_string, "
    "load_if_changed after an external rewrite (strictly increasing synthetic mtimes via os.utime), re-open from path, a refused load_string of malformed text (must raise and change nothing); autosave "
    "on/off, str/bytes arguments, encodings utf-8/latin-1, return_unicode; default htpasswd context and a custom one with a "
    "deprecated scheme. Plus explicit-state exploration of ALL operation sequences up to length 4 (thorough 5) over {set a, set b, "
    "delete a, delete b, check, export+reparse, save+reload} from 3 initial files. Oracle: a model (ordered items + dict); after "
    "every step an independent 15-line reader applied to to_string() (and to the file when saved/autosaved) yields exactly the "
    "model's users->hashes, each key once; comments/blank lines and untouched records keep their relative order; return values "
    "equal the model's; check_password is True iff the password is the last one set, None for unknown users, and after a "
    "successful check against a deprecated scheme the stored hash is a default-scheme hash verifying the password; names with "
    "':' CR LF TAB NUL or >255 bytes raise ValueError. Non-trivial = a history with a delete followed by a later set of the same "
    "key, or an export after >=2 mutations on a file with comments/duplicates."
)
ASSUMPTIONS = [
    "set_hash values are real hashes (no ':' / newline / edge blanks); trailing blank lines are documented as not preserved and excluded from the order check",
    "records are re-rendered on export (a CRLF record comes back with LF): only parsed (key, hash) pairs and relative order are compared",
]
LEVEL_TEXT = (
    "Model-based testing: a rule-based state machine with a per-step invariant checked through an independent reader of the "
    "exported text, plus exhaustive exploration of all short operation sequences from several initial files."
)
LEVEL_NOTE = "Trusted: the model and the independent reader in this file, Hypothesis."
TECHNIQUE = "rule-based state machine (model-based testing) + exhaustive exploration of short operation sequences"
#: thorough tier: seed-dependent tasks are repeated under this many derived seeds (run.py); the listed task functions enumerate fixed domains
THOROUGH_REPS = 4
DETERMINISTIC_FNS = ('t_explore',)

USERS = ["alice", "bøb", "da ve", "u" * 40, "#carol", " lead", " #eve"]
REALMS = ["r1", "réalm two"]
PASSWORDS = ["pw1", "pässword2", "x y z"]
BAD_NAMES = ["a:b", "a\nb", "a\rb", "a\tb", "a\x00b", "n" * 256, "é" * 256, ":", "é" * 128, "€" * 86, "é" * 127 + "x", "n" * 255]


# ---- independent reader ------------------------------------------------------------------------------
def read_db(data: bytes, nfields: int):
    """-> (ordered list of tokens, dict key->hash, duplicates list).  token = ('text', line) | ('rec', key)"""
    tokens, recs, dups = [], {}, []
    for line in data.splitlines(keepends=True):
        t = line.lstrip()
        if not t or t.startswith(b"#"):
            tokens.append(("text", line))
            continue
        parts = line.rstrip().split(b":")
        if len(parts) != nfields:
            raise ValueError("malformed line")
        key = parts[0] if nfields == 2 else (parts[0], parts[1])
        if key in recs:
            dups.append(key)
            tokens.append(("dup", key))
            continue
        recs[key] = parts[-1]
        tokens.append(("rec", key))
    return tokens, recs, dups


class Model:
    def __init__(self, nfields):
        self.nfields = nfields
        self.tokens = []  # ('text', line) | ('rec', key)
        self.recs = {}
        self.pw = {}
        self.moved = set()  # keys deleted and later re-added (their position is unspecified: old slot or end)
        self.deleted = set()

    def load(self, data: bytes):
        tokens, recs, dups = read_db(data, self.nfields)
        self.tokens = [t for t in tokens if t[0] != "dup"]
        self.recs = recs
        self.pw = {}
        self.moved = set()
        self.deleted = set()
        self.had_dups = bool(dups)

    def set(self, key, hash_, pw=None):
        existing = key in self.recs
        if not existing:
            if key in self.deleted or any(t == ("rec", key) for t in self.tokens):
                self.moved.add(key)
            self.tokens.append(("rec", key))
        self.recs[key] = hash_
        self.pw[key] = pw
        return existing

    def delete(self, key):
        if key in self.recs:
            del self.recs[key]
            self.pw.pop(key, None)
            self.deleted.add(key)
            return True
        return False

    def order(self):
        """expected relative order of text lines and untouched live records"""
        out = []
        seen = set()
        for kind, val in self.tokens:
            if kind == "text":
                out.append((kind, val))
            elif val in self.recs and val not in self.moved and val not in seen:
                seen.add(val)
                out.append((kind, val))
        while out and out[-1][0] == "text" and not out[-1][1].strip():
            out.pop()
        return out


# ---- contexts / hashes ---------------------------------------------------------------------------------
_ctx_cache = {}


def get_ctx(kind):
    from passlib.context import CryptContext

    if kind not in _ctx_cache:
        if kind == "default":
            from passlib.apache import htpasswd_context

            _ctx_cache[kind] = htpasswd_context
        else:
            _ctx_cache[kind] = CryptContext(schemes=["md5_crypt", "apr_md5_crypt", "des_crypt", "ldap_sha1"], default="md5_crypt", deprecated=["des_crypt", "ldap_sha1"])
    return _ctx_cache[kind]


_hash_cache = {}


def real_hash(scheme, pw, user=None, realm=None, encoding="utf-8"):
    k = (scheme, pw, user, realm, encoding)
    if k not in _hash_cache:
        from passlib import hash as H

        if scheme == "htdigest":
            _hash_cache[k] = H.htdigest.hash(pw, user, realm, encoding=encoding)
        else:
            _hash_cache[k] = getattr(H, scheme).hash(pw.encode(encoding))
    return _hash_cache[k]


def enc(x, encoding):
    return x.encode(encoding) if isinstance(x, str) else x


def encodable(hist):
    e = hist.get("encoding", "utf-8")
    try:
        for u in USERS + REALMS + PASSWORDS:
            u.encode(e)
        return True
    except UnicodeEncodeError:
        return False


# ---- interpreter -----------------------------------------------------------------------------------------
def apply_ops(rec, hist, soft=False):
    """hist: {cls, initial(bytes), ctx, autosave, bound, encoding, return_unicode, default_realm, ops:[...]}"""
    from passlib import apache

    cls = hist["cls"]
    nf = 2 if cls == "htpasswd" else 3
    encoding = hist.get("encoding", "utf-8")
    ru = hist.get("return_unicode", True)
    tmp = tempfile.mkdtemp(prefix="vpc16.")
    path = os.path.join(tmp, "db")
    mt = [1_000_000_000]

    def bump(p):
        mt[0] += 10
        os.utime(p, (mt[0], mt[0]))

    def fail(bucket, what, i, obs=None, exp=None):
        sub = dict(hist, ops=hist["ops"][: i + 1])
        rec.fail(f"C16/{cls}/{bucket}", what, "history", sub, obs, exp, soft=soft)

    try:
        model = Model(nf)
        initial = hist["initial"]
        try:
            model.load(initial)
            init_ok = True
        except ValueError:
            init_ok = False
        kw = dict(encoding=encoding, return_unicode=ru, autosave=hist.get("autosave", False))
        if cls == "htpasswd":
            F = apache.HtpasswdFile
            if hist.get("ctx", "default") != "default":
                kw["context"] = get_ctx(hist["ctx"])
        else:
            F = apache.HtdigestFile
            if hist.get("default_realm"):
                kw["default_realm"] = REALMS[0]
        bound = hist.get("bound", False)
        if bound:
            with open(path, "wb") as fh:
                fh.write(initial)
            bump(path)
            st, db = call(F, path, **kw)
        else:
            st, db = call(F.from_string, initial, **kw)
        if not init_ok:
            if not (st == "err" and isinstance(db, ValueError)):
                fail("malformed-initial-accepted", "a file with a malformed line is loaded without ValueError", -1, repr(db), "ValueError")
            return False
        if st == "err":
            fail("load-raises", "loading a well-formed file raises", -1, repr(db), "loaded")
            return False
        ctx = get_ctx(hist.get("ctx", "default")) if cls == "htpasswd" else None
        mutations = 0
        nontrivial = False
        had_text = any(t[0] == "text" and t[1].strip() for t in model.tokens) or getattr(model, "had_dups", False)

        def key_of(u, r):
            ub = enc(USERS[u], encoding)
            return ub if cls == "htpasswd" else (ub, enc(REALMS[r], encoding))

        def args(u, r, as_bytes):
            user = USERS[u].encode(encoding) if as_bytes else USERS[u]
            if cls == "htpasswd":
                return (user,)
            realm = REALMS[r].encode(encoding) if as_bytes else REALMS[r]
            if hist.get("default_realm") and r == 0:
                return (user,)
            return (user, realm)

        def check_export(i, data, where):
            try:
                tokens, recs, dups = read_db(data, nf)
            except ValueError:
                fail(f"{where}-unparseable", f"{where} output is not a well-formed database", i, data[:200], None)
                return False
            if dups:
                fail(f"{where}-duplicate-key", f"{where} output contains a user more than once", i, dups[:3], "each user once")
                return False
            if recs != model.recs:
                missing = sorted(map(repr, set(model.recs) - set(recs)))[:3]
                extra = sorted(map(repr, set(recs) - set(model.recs)))[:3]
                kind = "lost-user" if missing else ("resurrected-user" if extra else "wrong-hash")
                fail(f"{where}-{kind}", f"{where} output does not parse back to the current users/hashes", i, {"missing": missing, "extra": extra}, None)
                return False
            # text lines are compared up to their line terminator (a final comment without newline gets one when records follow)
            norm = lambda seq: [(k, v.rstrip(b"\r\n")) if k == "text" else (k, v) for k, v in seq]  # noqa: E731
            got = [t for t in tokens if t[0] == "text" or (t[1] in model.recs and t[1] not in model.moved)]
            while got and got[-1][0] == "text" and not got[-1][1].strip():
                got.pop()
            got = norm(got)
            exp = norm(model.order())
            if got != exp:
                fail(f"{where}-order", f"{where} output does not keep comments, blank lines and untouched records in their original order", i, [repr(x) for x in got][:8], [repr(x) for x in exp][:8])
                return False
            return True

        for i, op in enumerate(hist["ops"]):
            name = op[0]
            rec.count(f"op:{cls}:{name}")
            m_before = mutations
            if name in ("set_password", "set_hash", "delete", "check", "get_hash") and USERS[op[1]].lstrip().startswith("#"):
                # a name that would be written as a comment line: either refused (ValueError) or it must survive export like any other
                probe = call(db.get_hash, *args(op[1], op[2], False))
                if probe[0] == "err" and isinstance(probe[1], ValueError):
                    rec.count("comment-like-name-refused")
                    continue
            if name in ("set_password", "set_hash"):
                _, u, r, p, as_bytes = op
                key = key_of(u, r)
                pw = PASSWORDS[p]
                a = args(u, r, as_bytes)
                if name == "set_password":
                    st, res = call(db.set_password, *a, pw.encode(encoding) if as_bytes else pw)
                    if st == "err":
                        fail("set_password-raises", "set_password raises", i, repr(res), None)
                        return nontrivial
                    stored = db._records.get(key) if False else None
                    hs = call(db.get_hash, *a)[1]
                    hsb = enc(hs, encoding) if hs is not None else None
                    exp_existing = model.set(key, hsb, pw)
                else:
                    first = "apr_md5_crypt" if hist.get("ctx", "default") == "default" else "md5_crypt"  # schemes the file's context knows
                    scheme = [first, "des_crypt", "ldap_sha1"][p % 3] if cls == "htpasswd" else "htdigest"
                    hs = real_hash(scheme, pw, USERS[u], REALMS[r], encoding)
                    st, res = call(db.set_hash, *a, hs.encode("ascii") if as_bytes else hs)
                    if st == "err":
                        fail("set_hash-raises", "set_hash raises", i, repr(res), None)
                        return nontrivial
                    exp_existing = model.set(key, hs.encode("ascii"), pw)
                if res is not exp_existing:
                    fail("set-return-value", f"{name} return value (existing?) differs from the model", i, res, exp_existing)
                    return nontrivial
                if key in model.moved:
                    nontrivial = True
                mutations += 1
            elif name == "delete":
                _, u, r, as_bytes = op
                exp = model.delete(key_of(u, r))
                st, res = call(db.delete, *args(u, r, as_bytes))
                if st == "err" or res is not exp:
                    fail("delete-return-value", "delete() return value differs from the model (or raises)", i, repr(res), exp)
                    return nontrivial
                mutations += exp
            elif name == "delete_realm" and cls == "htdigest":
                _, r = op
                rb = enc(REALMS[r], encoding)
                keys = [k for k in model.recs if k[1] == rb]
                for k in keys:
                    model.delete(k)
                st, res = call(db.delete_realm, REALMS[r])
                if st == "err" or res != len(keys):
                    fail("delete_realm-return-value", "delete_realm() return value differs from the model", i, repr(res), len(keys))
                    return nontrivial
                mutations += len(keys)
            elif name == "check":
                _, u, r, p, as_bytes = op
                key = key_of(u, r)
                pw = PASSWORDS[p]
                st, res = call(db.check_password, *args(u, r, as_bytes), pw.encode(encoding) if as_bytes else pw)
                if key not in model.recs:
                    exp = None
                elif model.pw.get(key) is None:
                    exp = "any"
                else:
                    exp = model.pw[key] == pw
                if st == "err":
                    fail("check_password-raises", "check_password raises", i, repr(res), exp)
                    return nontrivial
                if exp != "any" and res is not exp:
                    fail("check_password-result", "check_password() differs from 'True iff password is the last one set, None for unknown users'", i, res, exp)
                    return nontrivial
                if res is True and cls == "htpasswd":
                    cur = db.get_hash(*args(u, r, False))
                    curb = enc(cur, encoding)
                    if ctx.needs_update(curb) or not ctx.verify(pw.encode(encoding), curb):
                        fail("deprecated-not-upgraded", "after a successful check the stored hash still needs an update / does not verify", i, cur, None)
                        return nontrivial
                    if curb != model.recs[key]:
                        model.recs[key] = curb
                        mutations += 1
            elif name == "get_hash":
                _, u, r = op
                key = key_of(u, r)
                st, res = call(db.get_hash, *args(u, r, False))
                exp = model.recs.get(key)
                got = enc(res, encoding) if res is not None else None
                if st == "err" or got != exp:
                    fail("get_hash", "get_hash() differs from the model", i, repr(res), exp)
                    return nontrivial
            elif name == "users":
                if cls == "htpasswd":
                    st, res = call(db.users)
                    exp = sorted(model.recs)
                    got = sorted(enc(x, encoding) for x in res) if st == "ok" else None
                else:
                    r = op[1]
                    st, res = call(db.users, REALMS[r])
                    rb = enc(REALMS[r], encoding)
                    exp = sorted(k[0] for k in model.recs if k[1] == rb)
                    got = sorted(enc(x, encoding) for x in res) if st == "ok" else None
                    st2, rl = call(db.realms)
                    if st2 == "err" or sorted(enc(x, encoding) for x in rl) != sorted({k[1] for k in model.recs}):
                        fail("realms", "realms() differs from the model", i, repr(rl), None)
                        return nontrivial
                if st == "err" or got != exp:
                    fail("users", "users() differs from the model", i, repr(res), exp)
                    return nontrivial
                if st == "ok" and res and not all(isinstance(x, str if ru else bytes) for x in res):
                    fail("users-type", "users() element type does not follow return_unicode", i, repr(res), None)
                    return nontrivial
            elif name == "export":
                st, data = call(db.to_string)
                if st == "err":
                    fail("export-raises", "to_string() raises", i, repr(data), "bytes")
                    return nontrivial
                if not check_export(i, data, "export"):
                    return nontrivial
                if op[1:] == ["reparse"] or len(op) > 1:
                    st, db2 = call(F.from_string, data, **{k: v for k, v in kw.items() if k != "autosave"})
                    if st == "err":
                        fail("export-not-reloadable", "exported text cannot be loaded again", i, repr(db2), None)
                        return nontrivial
                    db = db2
                    db.autosave = kw["autosave"]
                    bound = False
                    model.load(data)
                    model.pw = {}
                if mutations >= 2 and had_text:
                    nontrivial = True
            elif name == "save":
                target = path if (bound and not op[1]) else os.path.join(tmp, "other")
                st, res = call(db.save) if (bound and not op[1]) else call(db.save, target)
                if st == "err":
                    fail("save-raises", "save() raises", i, repr(res), None)
                    return nontrivial
                with open(target, "rb") as fh:
                    data = fh.read()
                if not check_export(i, data, "save"):
                    return nontrivial
                if target == path:
                    # the object's own save is not an external change: nothing to reload, in-memory state stays
                    st, res = call(db.load_if_changed)
                    if st == "err" or res is not False:
                        fail("load_if_changed-after-own-save", "load_if_changed() right after the object's own save() reloads the file (later unsaved edits would be discarded)", i, repr(res), False)
                        return nontrivial
            elif name == "reload":
                # save (to bound path or explicit), then re-open from path
                st, res = call(db.save, path)
                if st == "err":
                    fail("save-raises", "save(path) raises", i, repr(res), None)
                    return nontrivial
                bump(path)
                with open(path, "rb") as fh:
                    data = fh.read()
                if not check_export(i, data, "save"):
                    return nontrivial
                st, db2 = call(F, path, **kw)
                if st == "err":
                    fail("reopen-raises", "re-opening the saved file raises", i, repr(db2), None)
                    return nontrivial
                db, bound = db2, True
                pws = dict(model.pw)
                model.load(data)
                model.pw = {k: v for k, v in pws.items() if k in model.recs}
            elif name == "external" and bound:
                # external rewrite of the bound file + load_if_changed
                new = EXTERNAL[op[1] % len(EXTERNAL)][0 if cls == "htpasswd" else 1]
                st0, r0 = call(db.load_if_changed)
                with open(path, "wb") as fh:
                    fh.write(new)
                bump(path)
                st, res = call(db.load_if_changed)
                if st == "err" or res is not True:
                    fail("load_if_changed", "load_if_changed() after an external rewrite did not reload", i, repr(res), True)
                    return nontrivial
                model.load(new)
                st, res = call(db.load_if_changed)
                if st == "err" or res is not False:
                    fail("load_if_changed-unchanged", "load_if_changed() reloads although the file did not change", i, repr(res), False)
                    return nontrivial
            elif name == "load_string":
                new = EXTERNAL[op[1] % len(EXTERNAL)][0 if cls == "htpasswd" else 1]
                st, res = call(db.load_string, new if op[1] % 2 else new.decode(encoding, "replace") if encoding == "utf-8" else new)
                if st == "err":
                    fail("load_string-raises", "load_string() raises on a well-formed database", i, repr(res), None)
                    return nontrivial
                model.load(new)
                if db.autosave and bound:
                    pass
            elif name == "load_bad":
                # a refused load loads nothing: ValueError, and users / hashes / passwords stay as they were (the invariant below compares with the unchanged model)
                badf = MALFORMED[op[1] % len(MALFORMED)][0 if cls == "htpasswd" else 1]
                st, res = call(db.load_string, badf if op[2] % 2 or encoding != "utf-8" else badf.decode("utf-8"))
                if not (st == "err" and isinstance(res, ValueError)):
                    fail("malformed-load-accepted", "load_string() of a database with a malformed line does not raise ValueError", i, repr(res), "ValueError")
                    return nontrivial
                if model.recs:
                    nontrivial = True
            elif name == "badname":
                bad = BAD_NAMES[op[1] % len(BAD_NAMES)]
                meths = [("get_hash", ()), ("delete", ()), ("check_password", ("pw",)), ("set_password", ("pw",))]
                m, extra = meths[op[2] % len(meths)]
                a = (bad,) if cls == "htpasswd" else ((bad, REALMS[0]) if op[3] % 2 == 0 else (USERS[0], bad))
                st, res = call(getattr(db, m), *a, *extra)
                try:
                    eb = bad.encode(encoding)
                    must_refuse = len(eb) > 255 or any(c in eb for c in b":\n\r\t\x00")
                except UnicodeEncodeError:
                    must_refuse = True
                if not must_refuse:
                    # a representable name of at most 255 BYTES: must be handled like any unknown user
                    if st == "err":
                        fail("good-name-refused", f"{m}() refuses a name of {len(eb)} bytes without forbidden characters", i, repr(res), "accepted")
                        return nontrivial
                    gkey = eb if cls == "htpasswd" else ((eb, enc(REALMS[0], encoding)) if op[3] % 2 == 0 else (enc(USERS[0], encoding), eb))
                    if m == "set_password":
                        model.set(gkey, enc(db.get_hash(*a), encoding), "pw")
                        mutations += 1
                    elif m == "delete":
                        mutations += bool(model.delete(gkey))
                elif not (st == "err" and isinstance(res, ValueError)):
                    fail("bad-name-accepted", f"{m}() accepts a user/realm name containing a separator, control character or more than 255 bytes", i, repr(res), "ValueError")
                    return nontrivial
            # autosave: the bound file must already reflect the model after every mutating step
            if db.autosave and bound and mutations > m_before and name in ("set_password", "set_hash", "delete", "delete_realm", "check") and os.path.exists(path):
                with open(path, "rb") as fh:
                    data = fh.read()
                if not check_export(i, data, "autosave"):
                    return nontrivial
            # invariant after every step: export parses back to the model
            st, data = call(db.to_string)
            if st == "err":
                fail("export-raises", "to_string() raises", i, repr(data), "bytes")
                return nontrivial
            if not check_export(i, data, "export"):
                return nontrivial
        return nontrivial
    finally:
        shutil.rmtree(tmp, ignore_errors=True)


def _h(scheme, pw):
    return real_hash(scheme, pw).encode("ascii")


def initial_files():
    """[(htpasswd bytes, htdigest bytes, label)]"""
    a, b, c, d = (u.encode("utf-8") for u in USERS[:4])
    hp = lambda u, pw, scheme="des_crypt": u + b":" + _h(scheme, pw) + b"\n"  # noqa: E731
    hd = lambda u, r, pw: u + b":" + r.encode() + b":" + real_hash("htdigest", pw, u.decode(), r).encode() + b"\n"  # noqa: E731
    r1, r2 = REALMS
    return [
        (b"", b"", "empty"),
        (hp(a, "pw1") + hp(b, "pw1", "apr_md5_crypt"), hd(a, r1, "pw1") + hd(b, r2, "pw1"), "plain"),
        (b"# comment one\n\n" + hp(a, "pw1") + b"   \n#c2\n" + hp(c, "pw1", "ldap_sha1") + b"\n# trailing comment\n", b"# comment one\n\n" + hd(a, r1, "pw1") + b"   \n#c2\n" + hd(c, r1, "pw1") + b"\n# trailing comment\n", "comments"),
        (hp(a, "pw1") + b"#x\n" + hp(a, "pw2") + hp(b, "pw1"), hd(a, r1, "pw1") + b"#x\n" + hd(a, r1, "pw2") + hd(b, r1, "pw1"), "duplicates"),
        (hp(a, "pw1").replace(b"\n", b"\r\n") + hp(b, "pw1").rstrip(b"\n"), hd(a, r1, "pw1").replace(b"\n", b"\r\n") + hd(b, r1, "pw1").rstrip(b"\n"), "crlf-nofinalnewline"),
        (b"  \n\n" + hp(d, "pw1") + b"\t# indented comment\n\n\n", b"  \n\n" + hd(d, r2, "pw1") + b"\t# indented comment\n\n\n", "blank-heavy"),
        (hp(a, "pw1") + b"# final comment without newline", hd(a, r1, "pw1") + b"# final comment without newline", "comment-nofinalnewline"),
        (hp(a, "pw1") + b"malformed line without colon\n", hd(a, r1, "pw1") + b"only:two\n", "malformed"),
        (hp(a, "pw1") + b"x:y:z\n", hd(a, r1, "pw1") + b"a:b:c:d\n", "malformed-extra-field"),
    ]


EXTERNAL = None
MALFORMED = None


def _init_external():
    global EXTERNAL, MALFORMED
    if EXTERNAL is None:
        fs = initial_files()
        EXTERNAL = [(f[0], f[1]) for f in fs if not f[2].startswith("malformed")]
        u9 = b"zed"
        # malformed line after good lines (one of them a user that usually is not in the current state), and as the very first line
        MALFORMED = [(f[0], f[1]) for f in fs if f[2].startswith("malformed")] + [
            (u9 + b":" + _h("des_crypt", "pw9") + b"\n" + fs[1][0] + b"no colon here\n", u9 + b":" + REALMS[0].encode() + b":" + b"0" * 32 + b"\n" + fs[1][1] + b"only:two\n"),
            (b"nocolon\n" + fs[1][0], b"a:b\n" + fs[1][1]),
        ]


@oracle(PROPERTY, "history")
def o_history(rec, case, soft=False):
    _init_external()
    apply_ops(rec, case, soft=soft)


ORACLES = {"history": o_history}


# ---- machine ------------------------------------------------------------------------------------------------
def make_machine(rec, cls):
    from hypothesis import strategies as st
    from hypothesis.stateful import RuleBasedStateMachine, initialize, rule

    _init_external()
    files = initial_files()
    U, R, P = st.integers(0, len(USERS) - 1), st.integers(0, 1), st.integers(0, 2)

    class FileMachine(RuleBasedStateMachine):
        def __init__(self):
            super().__init__()
            self.hist = None

        @initialize(f=st.integers(0, len(files) - 1), autosave=st.booleans(), bound=st.booleans(), encoding=st.sampled_from(["utf-8", "utf-8", "latin-1"]),
                    ru=st.booleans(), ctx=st.sampled_from(["default", "custom"]), dr=st.booleans())
        def init(self, f, autosave, bound, encoding, ru, ctx, dr):
            initial = files[f][0 if cls == "htpasswd" else 1]
            if encoding == "latin-1":
                try:
                    initial = initial.decode("utf-8").encode("latin-1")
                except UnicodeError:
                    encoding = "utf-8"
            self.hist = {"cls": cls, "initial": initial, "initial_label": files[f][2], "autosave": autosave, "bound": bound, "encoding": encoding,
                         "return_unicode": ru, "ctx": ctx, "default_realm": dr, "ops": []}

        def _step(self, op):
            if machine_guard(self) or self.hist is None:
                return
            self.hist["ops"].append(op)
            rec.ev()
            try:
                nt = apply_ops(rec, self.hist)
            except Violation as v:
                machine_fail(self, v)
            if nt:
                rec.nt(cls, self.hist["initial_label"], self.hist["autosave"], self.hist["bound"], tuple(map(tuple, self.hist["ops"])))

        @rule(u=U, r=R, p=P, b=st.booleans())
        def set_password(self, u, r, p, b):
            self._step(["set_password", u, r, p, b])

        @rule(u=U, r=R, p=P, b=st.booleans())
        def set_hash(self, u, r, p, b):
            self._step(["set_hash", u, r, p, b])

        @rule(u=U, r=R, b=st.booleans())
        def delete(self, u, r, b):
            self._step(["delete", u, r, b])

        @rule(r=R)
        def delete_realm(self, r):
            self._step(["delete_realm", r])

        @rule(u=U, r=R, p=P, b=st.booleans())
        def check(self, u, r, p, b):
            self._step(["check", u, r, p, b])

        @rule(u=U, r=R)
        def get_hash(self, u, r):
            self._step(["get_hash", u, r])

        @rule(r=R)
        def users(self, r):
            self._step(["users", r])

        @rule(reparse=st.booleans())
        def export(self, reparse):
            self._step(["export", "reparse"] if reparse else ["export"])

        @rule(other=st.booleans())
        def save(self, other):
            self._step(["save", other])

        @rule()
        def reload(self):
            self._step(["reload"])

        @rule(k=st.integers(0, 7))
        def external(self, k):
            self._step(["external", k])

        @rule(k=st.integers(0, 7))
        def load_string(self, k):
            self._step(["load_string", k])

        @rule(k=st.integers(0, 3), b=st.integers(0, 1))
        def load_bad(self, k, b):
            self._step(["load_bad", k, b])

        @rule(k=st.integers(0, 11), m=st.integers(0, 3), w=st.integers(0, 1))
        def badname(self, k, m, w):
            self._step(["badname", k, m, w])

        def teardown(self):
            if self.hist and len(self.hist["ops"]) > 4:
                rec.sample(f"history:{cls}", {**self.hist, "ops": self.hist["ops"][:12]})

    return FileMachine


def t_machine(rec, seed, tier, cls, shard):
    n, steps = {"quick": (80, 20), "thorough": (300, 40)}[tier]
    hyp_machine(rec, make_machine(rec, cls), n, steps, seed + shard, shrink_budget=20)


def t_explore(rec, seed, tier, cls, file_index, first, encoding="utf-8"):
    """all operation sequences up to length 4/5 over 7 operations, starting with operation `first`"""
    _init_external()
    files = initial_files()
    ops = [["set_password", 0, 0, 1, False], ["set_hash", 1, 0, 1, False], ["delete", 0, 0, False], ["delete", 1, 0, False], ["check", 0, 0, 1, False], ["export", "reparse"], ["reload"]]
    depth = 4 if tier == "quick" else 5
    initial = files[file_index][0 if cls == "htpasswd" else 1]
    if encoding != "utf-8":
        initial = initial.decode("utf-8").encode(encoding)
    n = nt = 0
    for ln in range(1, depth + 1):
        for seq in itertools.product(range(7), repeat=ln - 1):
            hist = {"cls": cls, "initial": initial, "initial_label": files[file_index][2], "autosave": False, "bound": False, "encoding": encoding,
                    "return_unicode": True, "ctx": "custom", "default_realm": False, "ops": [ops[first]] + [ops[k] for k in seq]}
            if apply_ops(rec, hist, soft=True):
                nt += 1
            n += 1
    # second pass, bound to a file with autosave on: every mutating step -- including the silent upgrade of a deprecated hash by
    # check_password() -- must already be on disk (operations on one user: store a deprecated-scheme hash, check, set, delete, reload)
    if first < 5:
        ops2 = [["set_hash", 1, 0, 1, False], ["check", 1, 0, 1, False], ["set_password", 1, 0, 2, False], ["delete", 1, 0, False], ["reload"]]
        for ln in range(1, 5):
            for seq in itertools.product(range(5), repeat=ln - 1):
                hist = {"cls": cls, "initial": initial, "initial_label": files[file_index][2], "autosave": True, "bound": True, "encoding": encoding,
                        "return_unicode": True, "ctx": "custom", "default_realm": False, "ops": [ops2[first]] + [ops2[k] for k in seq]}
                if apply_ops(rec, hist, soft=True):
                    nt += 1
                n += 1
    # third pass: a refused load (malformed text) anywhere in a short history leaves the database as it was
    if first == 0:
        ops3 = [["set_password", 0, 0, 1, False], ["delete", 0, 0, False], ["check", 0, 0, 1, False], ["load_bad", 0, 0], ["load_bad", 2, 1], ["load_bad", 3, 0], ["reload"]]
        for bound, autosave in ((False, False), (True, True)):
            for seq in itertools.product(range(7), repeat=3):
                if not any(ops3[k][0] == "load_bad" for k in seq):
                    continue
                hist = {"cls": cls, "initial": initial, "initial_label": files[file_index][2], "autosave": autosave, "bound": bound, "encoding": encoding,
                        "return_unicode": True, "ctx": "custom", "default_realm": False, "ops": [ops3[k] for k in seq]}
                if apply_ops(rec, hist, soft=True):
                    nt += 1
                n += 1
    rec.ev(n)
    rec.nt_bulk(nt)
    rec.count(f"explore:{cls}:{files[file_index][2]}", n)
    rec.sample("explore", {"cls": cls, "initial": files[file_index][2], "first_op": ops[first], "depth": depth, "sequences": n})
    rec.subrecord(f"explore:{cls}:{files[file_index][2]}:{first}", exhaustive=True, depth=depth, sequences=n)


def tasks(tier):
    ts = []
    for cls in ("htpasswd", "htdigest"):
        for sh in range(3 if tier == "quick" else 6):
            ts.append({"name": f"machine-{cls}-{sh}", "fn": "t_machine", "kw": {"cls": cls, "shard": sh}})
        for fi in (1, 2, 3, 6):
            for first in range(7):
                ts.append({"name": f"explore-{cls}-{fi}-{first}", "fn": "t_explore", "kw": {"cls": cls, "file_index": fi, "first": first}})
        for first in (0, 4):
            ts.append({"name": f"explore-{cls}-latin1-{first}", "fn": "t_explore", "kw": {"cls": cls, "file_index": 1, "first": first, "encoding": "latin-1"}})
    return ts
