"""C03 -- all backends of a hash agree and every advertised backend works."""

from __future__ import annotations

import hashlib
import os

from ..common import Recorder, Violation, call, hyp_campaign, hyp_machine, machine_fail, machine_guard, oracle
from ..gens import strategies as S
from ..gens import table
from ..refs import formats as RF
from ..refs import third as R3

PROPERTY = "C03"
LEVEL = "exploration"
RULE = (
    "(a) availability: for every multi-backend hasher x every name in .backends, host support is demonstrated independently "
    "(libxcrypt reproduces a vector for the format; `import bcrypt` + hashpw; hashlib.scrypt exists; builtin always, for bcrypt iff "
    "PASSLIB_BUILTIN_BCRYPT is set) and has_backend/set_backend/get_backend/hash must agree with it; a fresh process per hasher. "
    "(b) agreement: Hypothesis cases (password incl. non-UTF-8 bytes, explicit salt, cheap cost, ident) hashed under every selectable "
    "backend in a generated order, all equal and equal to the independent reference string of C02. (c) isolation: rule-based state "
    "machine over set_backend/has_backend/probe histories; after every step each probe (fixed hasher, password, settings) still "
    "returns its reference string. Non-trivial = agreement case comparing >=2 backends with len(p)>0, or a machine run with >=1 "
    "switch followed by a probe of a different hasher."
)
ASSUMPTIONS = [
    "vpchk/refs reference strings (self-tested), libxcrypt, pyca bcrypt and hashlib.scrypt as independent demonstrations of host support",
    "scrypt's backend is module-global and bcrypt-derived classes share bcrypt's backend by documented design: isolation is asserted on results, not on get_backend()",
]
LEVEL_TEXT = (
    "Generated-input differential testing across backends plus a rule-based state machine over backend-switch histories with a "
    "per-step invariant; availability is decided against an independent demonstration of host support in a fresh process per hasher."
)
LEVEL_NOTE = "Trusted: reference implementations of C02, libxcrypt / pyca bcrypt / hashlib as witnesses of host support, Hypothesis."
TECHNIQUE = "Hypothesis differential testing across backends + rule-based state machine over backend-switch histories"
#: thorough tier: seed-dependent tasks are repeated under this many derived seeds (run.py); the listed task functions enumerate fixed domains
THOROUGH_REPS = 3
DETERMINISTIC_FNS = ('t_avail', 't_avail_default')
RULE += " The state machine also selects backends through the documented aliases 'any' (keep the loaded one) and 'default' (first one the host supports)."

MULTI = ["md5_crypt", "sha1_crypt", "sha256_crypt", "sha512_crypt", "des_crypt", "bsdi_crypt", "bcrypt", "bcrypt_sha256", "scrypt",
         "ldap_md5_crypt", "ldap_sha256_crypt", "ldap_des_crypt", "ldap_bcrypt", "django_bcrypt", "django_bcrypt_sha256", "ldap_sha1_crypt",
         "ldap_sha512_crypt", "ldap_bsdi_crypt"]


def host_supports(name, backend):
    """independent demonstration that the host supports `backend` for hasher `name`"""
    f = table.T[name]
    base = f.base if f.base in ("bcrypt",) or name.startswith("ldap_") else name
    if name in ("bcrypt_sha256", "django_bcrypt_sha256", "django_bcrypt", "ldap_bcrypt"):
        base = "bcrypt"
    if backend == "builtin":
        if base == "bcrypt":
            v = os.environ.get("PASSLIB_BUILTIN_BCRYPT", "")
            return v.lower() in ("1", "true", "yes", "enabled", "on", "y", "t")
        return True
    if backend == "os_crypt":
        return R3.os_crypt_supports(base)
    if backend == "bcrypt":
        return table.available("bcrypt")
    if backend == "stdlib":
        return hasattr(hashlib, "scrypt")
    if backend == "scrypt":
        try:
            import scrypt  # noqa: F401

            return True
        except ImportError:
            return False
    return None


@oracle(PROPERTY, "availability")
def o_avail(rec: Recorder, case, soft=False):
    """case: {name, backend}; run in a fresh process"""
    from passlib import exc

    name, backend = case["name"], case["backend"]
    h = table.handler(name)
    sup = host_supports(name, backend)
    if sup is None:
        rec.count("availability_unknown_backend")
        return
    st, r = call(h.has_backend, backend)
    if st == "err" or r is not sup:
        rec.fail(f"C03/availability/{name}/{backend}", f"{name}.has_backend({backend!r}) is {r!r}, host support demonstrated: {sup}", "availability", case, repr(r), sup, soft=soft)
        return
    st, r = call(h.set_backend, backend)
    if sup:
        if st == "err":
            rec.fail(f"C03/availability/{name}/{backend}", f"{name}.set_backend({backend!r}) raised although the host supports it", "availability", case, repr(r), "success", soft=soft)
            return
        if h.get_backend() != backend:
            rec.fail(f"C03/get-backend/{name}/{backend}", f"{name}.get_backend() != {backend!r} after set_backend", "availability", case, h.get_backend(), backend, soft=soft)
        s = _probe_settings(name)
        st, r = call(lambda: h.using(**s).hash("pässword"))
        exp = RF.ref_hash(name, "pässword", RF.norm_settings(name, s), {})
        if st == "err" or (exp is not None and r != exp):
            rec.fail(f"C03/availability-hash/{name}/{backend}", f"{name} under backend {backend!r} fails to hash or hashes wrongly", "availability", case, repr(r), exp, soft=soft)
    else:
        if not (st == "err" and isinstance(r, exc.MissingBackendError)):
            rec.fail(f"C03/unavailable/{name}/{backend}", f"{name}.set_backend({backend!r}) of an absent backend did not raise MissingBackendError", "availability", case, repr(r), "MissingBackendError", soft=soft)
            return
        # a refused selection must leave the hasher working with the backend it had
        s = _probe_settings(name)
        st, r = call(lambda: h.using(**s).hash("pässword"))
        exp = RF.ref_hash(name, "pässword", RF.norm_settings(name, s), {})
        if st == "err" or (exp is not None and r != exp):
            rec.fail(f"C03/failed-select-corrupts/{name}/{backend}", f"{name}: after a refused set_backend({backend!r}) the hasher no longer hashes correctly", "availability", case, repr(r), exp, soft=soft)
            return
        cur = h.get_backend()
        st, r = call(h.set_backend, cur)
        st2, r2 = call(lambda: h.using(**s).hash("pässword"))
        if st == "err" or st2 == "err" or (exp is not None and r2 != exp):
            rec.fail(f"C03/failed-select-corrupts/{name}/{backend}", f"{name}: after a refused set_backend({backend!r}) re-selecting the reported backend {cur!r} fails", "availability", case, repr(r2), exp, soft=soft)


def _probe_settings(name, i=0):
    from .c02 import fixed_settings

    s = fixed_settings(name, i)
    if table.T[name].base == "bcrypt" or "bcrypt" in name:
        s["rounds"] = 4
    if name == "scrypt":
        s.update(rounds=2, block_size=1, parallelism=1)
    return s


def selectable(name):
    h = table.handler(name)
    return [b for b in h.backends if host_supports(name, b)]


@oracle(PROPERTY, "agreement")
def o_agree(rec: Recorder, case, soft=False):
    """case: {name, settings, secret, order:[backend...]}"""
    from passlib import exc

    name, settings, secret, order = case["name"], case["settings"], case["secret"], case["order"]
    h = table.handler(name)
    ns = RF.norm_settings(name, settings)
    exp = RF.ref_hash(name, secret, ns, {})
    results = {}
    for b in order:
        h.set_backend(b)
        st, r = call(lambda: h.using(**settings).hash(secret))
        if st == "err":
            nonutf8 = isinstance(secret, bytes) and _not_utf8(secret)
            if b == "os_crypt" and "bcrypt" in name and nonutf8 and isinstance(r, exc.PasswordValueError):
                # recorded finding: bcrypt's os_crypt backend refuses instead of falling back
                rec.fail(f"C03/os_crypt-nonutf8-refused/{table.T[name].base if 'bcrypt' in table.T[name].base else name}", "bcrypt os_crypt backend raises PasswordValueError for non-UTF-8 bytes instead of falling back", "agreement", case, repr(r), exp, soft=True)
                continue
            rec.fail(f"C03/backend-error/{name}/{b}", f"{name} backend {b!r} raised on an admissible password", "agreement", case, repr(r), exp, soft=soft)
            return
        results[b] = r
        if h.verify(secret, r) is not True:
            rec.fail(f"C03/verify/{name}/{b}", f"{name} backend {b!r}: own hash does not verify", "agreement", case, r, True, soft=soft)
    vals = set(results.values())
    if len(vals) > 1:
        rec.fail(f"C03/disagree/{name}", f"{name}: backends produce different digests", "agreement", case, results, exp, soft=soft)
        return
    if exp is not None and vals and vals != {exp}:
        rec.fail(f"C03/all-wrong/{name}", f"{name}: backends agree with each other but not with the reference", "agreement", case, results, exp, soft=soft)
        return
    # cross-verification: a hash made under one backend verifies under every other
    if len(results) >= 2 and exp is not None:
        for b in order:
            if b in results:
                h.set_backend(b)
                if h.verify(secret, exp) is not True:
                    rec.fail(f"C03/cross-verify/{name}/{b}", f"{name} backend {b!r} rejects the common hash", "agreement", case, False, True, soft=soft)


def _not_utf8(b):
    try:
        b.decode("utf-8")
        return False
    except UnicodeDecodeError:
        return True


# ---- state machine: backend switching histories -----------------------------------------------------
MACHINE_HASHERS = ["md5_crypt", "sha256_crypt", "sha512_crypt", "sha1_crypt", "des_crypt", "bsdi_crypt", "bcrypt", "bcrypt_sha256", "scrypt", "ldap_md5_crypt"]
PROBE_SECRETS = ["pässword", b"\xffraw\x80bytes", ""]


def apply_ops(rec, ops, soft=False):
    """interpreter shared by the machine and by replay: ops = [["set", name, backend] | ["probe", name, k]]"""
    from passlib import exc

    model = {}
    switched = False
    nontrivial = False
    last_set = None
    for i, op in enumerate(ops):
        kind, name = op[0], op[1]
        h = table.handler(name)
        if kind == "set" and op[2] in ("any", "default"):
            # documented aliases: 'default' = the first backend the host supports; 'any' = keep the loaded backend, else the default
            first = next((x for x in h.backends if host_supports(name, x)), None)
            if first is None:
                continue
            # (worker processes run many histories: without a 'set' in this history the loaded backend is whatever get_backend() reports)
            # (derived and wrapped hashers share their parent's backend by design, so what is loaded is read from get_backend(), not from this history)
            target = h.get_backend() if op[2] == "any" else first
            st, r = call(h.set_backend, op[2])
            if st == "err" or h.get_backend() != target:
                rec.fail(f"C03/machine/set-{op[2]}/{name}", f"set_backend({op[2]!r}) does not select the documented backend", "machine", {"ops": ops[: i + 1]}, repr(r) if st == "err" else h.get_backend(), target, soft=soft)
                return
            model[name] = target
            switched = True
            last_set = name
        elif kind == "set":
            b = op[2]
            sup = host_supports(name, b)
            st, r = call(h.set_backend, b)
            if sup and st == "err":
                rec.fail(f"C03/machine/set-failed/{name}/{b}", f"set_backend({b!r}) failed in a switching history", "machine", {"ops": ops[: i + 1]}, repr(r), "success", soft=soft)
                return
            if not sup and not (st == "err" and isinstance(r, exc.MissingBackendError)):
                rec.fail(f"C03/machine/unavailable/{name}/{b}", "absent backend did not raise MissingBackendError", "machine", {"ops": ops[: i + 1]}, repr(r), "MissingBackendError", soft=soft)
                return
            if sup:
                model[name] = b
                switched = True
                last_set = name
                if h.get_backend() != b:
                    rec.fail(f"C03/machine/get-backend/{name}", "get_backend() does not report the backend just selected", "machine", {"ops": ops[: i + 1]}, h.get_backend(), b, soft=soft)
                    return
        elif kind == "has":
            b = op[2]
            sup = host_supports(name, b)
            st, r = call(h.has_backend, b)
            if st == "err" or r is not sup:
                rec.fail(f"C03/machine/has-backend/{name}/{b}", "has_backend() disagrees with demonstrated host support", "machine", {"ops": ops[: i + 1]}, repr(r), sup, soft=soft)
                return
        else:
            k = op[2]
            secret = PROBE_SECRETS[k % len(PROBE_SECRETS)]
            if "bcrypt" in name and isinstance(secret, bytes):
                secret = "x" * 73
            s = _probe_settings(name, k)
            exp = RF.ref_hash(name, secret, RF.norm_settings(name, s), {})
            st, r = call(lambda: h.using(**s).hash(secret))
            if st == "err" or (exp is not None and r != exp):
                rec.fail(f"C03/machine/probe/{name}", f"probe of {name} changed after backend switches elsewhere", "machine", {"ops": ops[: i + 1]}, repr(r), exp, soft=soft)
                return
            if switched and last_set is not None and last_set != name:
                nontrivial = True
    return nontrivial


@oracle(PROPERTY, "machine")
def o_machine(rec, case, soft=False):
    apply_ops(rec, case["ops"], soft=soft)


ORACLES = {"availability": o_avail, "agreement": o_agree, "machine": o_machine}


def make_machine(rec):
    from hypothesis import strategies as st
    from hypothesis.stateful import RuleBasedStateMachine, rule

    names = st.sampled_from(MACHINE_HASHERS)

    class BackendMachine(RuleBasedStateMachine):
        def __init__(self):
            super().__init__()
            self.ops = []

        def _run(self, op):
            if machine_guard(self):
                return
            self.ops.append(op)
            rec.ev()
            rec.count(f"machine:{op[0]}")
            try:
                nt = apply_ops(rec, self.ops)
            except Violation as v:
                machine_fail(self, v)
            if nt:
                rec.nt("machine", tuple(map(tuple, self.ops)))

        @rule(name=names, data=st.data())
        def set_backend(self, name, data):
            b = data.draw(st.sampled_from(list(table.handler(name).backends) + ["any", "default"]))
            if b == "builtin" and "bcrypt" in name and host_supports(name, "builtin") and data.draw(st.integers(0, 3)):
                b = "bcrypt"  # the pure-python bcrypt is slow: select it rarely
            self._run(["set", name, b])

        @rule(name=names, data=st.data())
        def has_backend(self, name, data):
            self._run(["has", name, data.draw(st.sampled_from(list(table.handler(name).backends)))])

        @rule(name=names, k=st.integers(0, 5))
        def probe(self, name, k):
            self._run(["probe", name, k])

        def teardown(self):
            if len(self.ops) > 3:
                rec.sample("machine-history", {"ops": self.ops[:12]})

    return BackendMachine


# ---- tasks -------------------------------------------------------------------------------------------
def t_avail(rec, seed, tier, name):
    h = table.handler(name)
    for b in h.backends:
        rec.ev()
        rec.nt("avail", name, b, os.environ.get("PASSLIB_BUILTIN_BCRYPT"))
        rec.count(f"availability:{b}:{'supported' if host_supports(name, b) else 'absent'}")
        rec.sample("availability", {"name": name, "backend": b, "host_supports": host_supports(name, b)})
        o_avail(rec, {"name": name, "backend": b}, soft=True)


def registry_view(rec, name):
    """passlib.registry's own helpers agree with the hasher (and so with the independent demonstration of host support)"""
    from passlib import registry

    h = table.handler(name)
    if "os_crypt" not in getattr(h, "backends", ()):
        return
    sup = host_supports(name, "os_crypt")
    got = (bool(registry.has_os_crypt_support(name)), registry.has_backend(name, "os_crypt", safe=True), registry.has_backend(name, "os_crypt"))
    if got != (sup, sup, sup):
        rec.fail(f"C03/registry-view/{name}", "registry.has_os_crypt_support / has_backend disagree with demonstrated host support", "availability", {"name": name, "backend": "os_crypt"}, got, sup, soft=True)
    if name in registry.get_supported_os_crypt_schemes() and not sup or (sup and name in ("des_crypt", "md5_crypt", "sha256_crypt", "sha512_crypt", "bsdi_crypt", "sha1_crypt", "bcrypt") and name not in registry.get_supported_os_crypt_schemes()):
        rec.fail(f"C03/registry-os-crypt-schemes/{name}", "registry.get_supported_os_crypt_schemes() disagrees with demonstrated host support", "availability", {"name": name, "backend": "os_crypt"}, list(registry.get_supported_os_crypt_schemes()), sup, soft=True)


def t_avail_default(rec, seed, tier, name):
    registry_view(rec, name)
    """first use without selecting anything: hash works and get_backend names an available backend"""
    h = table.handler(name)
    s = _probe_settings(name)
    rec.ev()
    st, r = call(lambda: h.using(**s).hash("pw"))
    exp = RF.ref_hash(name, "pw", RF.norm_settings(name, s), {})
    if st == "err" or (exp is not None and r != exp):
        rec.fail(f"C03/default-backend/{name}", f"{name}: first hash() with the default backend fails or is wrong", "availability", {"name": name, "backend": "<default>"}, repr(r), exp, soft=True)
        return
    b = h.get_backend()
    if not host_supports(name, b):
        rec.fail(f"C03/default-backend-name/{name}", "get_backend() names a backend the host does not support", "availability", {"name": name, "backend": b}, b, None, soft=True)
    rec.nt("default", name, b)
    rec.sample("default-backend", {"name": name, "backend": b})


def t_agree(rec, seed, tier, name):
    from hypothesis import strategies as st

    f = table.T[name]
    sel = selectable(name)
    slow_builtin = "bcrypt" in name
    n = {"quick": 25, "thorough": 300}[tier]
    if slow_builtin:
        n = 6 if tier == "quick" else 80

    @st.composite
    def cases(draw):
        secret = draw(S.secrets(f))
        if isinstance(secret, bytes) and draw(st.booleans()):
            try:
                secret = secret.decode("utf-8")
            except UnicodeDecodeError:
                pass
        settings = draw(S.settings(name))
        if slow_builtin:
            settings["rounds"] = 4
        if name == "scrypt":
            settings["rounds"] = min(settings["rounds"], 4)
        order = draw(st.permutations(sel))
        return {"name": name, "settings": settings, "secret": secret, "order": list(order)}

    def body(case):
        rec.ev()
        rec.count(f"agree:{name}:{len(case['order'])}-backends")
        if len(case["order"]) >= 2 and len(case["secret"]) > 0:
            rec.nt("agree", name, repr(case["secret"]), repr(sorted(case["settings"].items(), key=str)))
        if isinstance(case["secret"], bytes) and _not_utf8(case["secret"]):
            rec.count("agree:non-utf8-password")
        if 2 < len(case["secret"]) < 50:
            rec.sample(f"agree:{name}", case)
        o_agree(rec, case)

    hyp_campaign(rec, body, cases(), n, seed, shrink_budget=20)


def t_machine(rec, seed, tier, shard):
    n, steps = {"quick": (10, 12), "thorough": (50, 30)}[tier]
    hyp_machine(rec, make_machine(rec), n, steps, seed + shard, shrink_budget=20)


def tasks(tier):
    ts = []
    env_on = {"PASSLIB_BUILTIN_BCRYPT": "1"}
    for name in MULTI:
        ts.append({"name": f"avail-{name}", "fn": "t_avail", "kw": {"name": name}, "env": env_on})
        ts.append({"name": f"default-{name}", "fn": "t_avail_default", "kw": {"name": name}})
        ts.append({"name": f"agree-{name}", "fn": "t_agree", "kw": {"name": name}, "env": env_on})
    for name in ("bcrypt", "bcrypt_sha256", "django_bcrypt"):
        ts.append({"name": f"avail-nobuiltin-{name}", "fn": "t_avail", "kw": {"name": name}, "env": {"PASSLIB_BUILTIN_BCRYPT": ""}})
    for sh in range(4 if tier == "quick" else 8):
        # odd shards run without the builtin bcrypt opt-in, so histories contain refused selections
        ts.append({"name": f"machine-{sh}", "fn": "t_machine", "kw": {"shard": sh}, "env": env_on if sh % 2 == 0 else {"PASSLIB_BUILTIN_BCRYPT": ""}})
    return ts
