"""C09 -- using() gives a hasher that honours its settings; the original is untouched."""

from __future__ import annotations

from .. import ctxmodel
from ..common import Recorder, Violation, call, hyp_machine, machine_fail, machine_guard, oracle
from ..ctxmodel import ConfigError
from ..gens import table

PROPERTY = "C09"
LEVEL = "exploration"
RULE = (
    "Rule-based state machine per hasher family (18 families incl. prefix wrappers): state = tree of derived hashers with a model "
    "record each; rules: derive(node, kwds) with kwds drawn inside / at / beyond the hard limits, as ints or strings, relaxed on/off, "
    "aliases (rounds, min_rounds, max_rounds, min_desired_rounds, default_rounds, vary_rounds, salt_size, ident, variant, block_size, "
    "parallelism, truncate_error, marker); hash_with(node); needs_update(node, hash at cost c); chains up to depth 4, interleaved "
    "use of parents, children and the passlib.hash globals. Oracle: the using() model of DESIGN.md appendix A: strict out-of-limit "
    "value => ValueError, relaxed => clamped; default clipped into the desired window; generated rounds inside the vary window inside "
    "the desired window (bsdi: odd); every produced hash inside the hard limits and carrying the configured salt size / ident / "
    "variant / block size / parallelism; needs_update True iff cost outside the node's window (or documented scheme flag); "
    "isolation invariant after EVERY step: a probe on every other node and on the global returns what its own model record "
    "predicts, and derive returned a new object. Non-trivial = a run with >=2 derivations where a parent is probed after its child "
    "was derived/used, or a limit-crossing value."
)
ASSUMPTIONS = ["vpchk/ctxmodel.model_using_rounds transcribes DESIGN.md appendix A", "contradictory combinations are expected to raise ValueError, mutually exclusive aliases TypeError"]
LEVEL_TEXT = "Model-based stateful testing of using() derivation chains with an isolation invariant checked after every step on every live hasher object."
LEVEL_NOTE = "Trusted: the using() model (appendix A, vpchk/ctxmodel.py), Hypothesis."
TECHNIQUE = "Hypothesis rule-based state machine (model-based) with per-step isolation invariant"
#: thorough tier: seed-dependent tasks are repeated under this many derived seeds (run.py); the listed task functions enumerate fixed domains
THOROUGH_REPS = 1
DETERMINISTIC_FNS = ()
RULE += " A node never flags its own fresh hash; ident short names are resolved by the documented alias table, not the hasher's own; a narrow-window rule derives children whose window is a band around the parent's default."

# family -> cheap rounds window used for the first derivation and for probes
FAMILIES = {
    "sha256_crypt": (1000, 2500), "sha512_crypt": (1000, 2500), "md5_crypt": None, "pbkdf2_sha256": (1, 400), "sha1_crypt": (1, 1500), "bsdi_crypt": (1, 301),
    "phpass": (7, 9), "bcrypt": (4, 5), "des_crypt": None, "scrypt": (1, 4), "fshp": (1, 300), "ldap_salted_sha1": None, "ldap_sha256_crypt": (1000, 2500),
    "django_pbkdf2_sha256": (1, 300), "lmhash": None, "unix_disabled": None, "ldap_pbkdf2_sha256": (1, 300), "django_salted_sha1": None,
    "scram": (1, 60), "django_bcrypt": (4, 5), "bcrypt_sha256": (4, 5),
}
#: hard cost limits of the formats (docs/lib/passlib.hash.*.rst), not read from the hashers
HARD_LIMITS = {
    "phpass": (7, 30), "bcrypt": (4, 31), "django_bcrypt": (4, 31), "bcrypt_sha256": (4, 31), "sha256_crypt": (1000, 999999999), "sha512_crypt": (1000, 999999999), "ldap_sha256_crypt": (1000, 999999999),
    "pbkdf2_sha256": (1, 4294967295), "ldap_pbkdf2_sha256": (1, 4294967295), "django_pbkdf2_sha256": (1, 4294967295), "sha1_crypt": (1, 4294967295), "bsdi_crypt": (1, 16777215),
    "scrypt": (1, 31), "fshp": (1, 4294967295), "scram": (1, 4294967295),
}


def base_record(name):
    h = table.handler(name)
    rec = {"min": getattr(h, "min_desired_rounds", None), "max": getattr(h, "max_desired_rounds", None), "default": getattr(h, "default_rounds", None), "vary": getattr(h, "vary_rounds", None)}
    rec["salt_size"] = getattr(h, "default_salt_size", None)
    rec["ident"] = getattr(getattr(h, "wrapped", h), "default_ident", None) if hasattr(h, "wrapped") and getattr(h, "default_ident", None) is None else getattr(h, "default_ident", None)
    rec["truncate_error"] = getattr(h, "truncate_error", None)
    rec["extra"] = {k: getattr(h, k, None) for k in ("block_size", "parallelism", "default_variant", "default_marker")}
    rec["extra"]["algs"] = list(h.default_algs) if getattr(h, "default_algs", None) else None
    if name == "bcrypt_sha256":
        rec["extra"]["version"] = 2  # documented default format version
    return rec


def model_derive(name, parent_rec, kw):
    """-> new record | raises ConfigError('value') / TypeError-class ConfigError('alias conflict')"""
    h = table.handler(name)
    rec = {k: (dict(v) if isinstance(v, dict) else v) for k, v in parent_rec.items()}
    relaxed = bool(kw.get("relaxed"))
    if "rounds" in getattr(h, "setting_kwds", ()):
        class P:  # parent view for the rounds model
            min_desired_rounds, max_desired_rounds, default_rounds, vary_rounds = parent_rec["min"], parent_rec["max"], parent_rec["default"], parent_rec["vary"]

        rkw = {k: v for k, v in kw.items() if k in ("rounds", "min_rounds", "max_rounds", "min_desired_rounds", "max_desired_rounds", "default_rounds", "vary_rounds")}
        mn, mx, df, vary = ctxmodel.model_using_rounds(h, P, rkw, relaxed)
        rec.update(min=mn, max=mx, default=df, vary=vary)
    if "salt_size" in kw:
        v = kw["salt_size"]
        if isinstance(v, str):
            try:
                v = int(v)
            except ValueError:
                raise ConfigError("bad salt_size") from None
        lo, hi = h.min_salt_size, h.max_salt_size
        if v < lo:
            if not relaxed:
                raise ConfigError("salt_size too small")
            v = lo
        if hi is not None and v > hi:
            if not relaxed:
                raise ConfigError("salt_size too large")
            v = hi
        rec["salt_size"] = v
    if "ident" in kw:
        rec["ident"] = norm_ident(h, kw["ident"])
    if "truncate_error" in kw:
        v = kw["truncate_error"]
        if isinstance(v, str):
            if v.lower() in ("true", "t", "yes", "y", "on", "1", "enable", "enabled"):
                v = True
            elif v.lower() in ("false", "f", "no", "n", "off", "0", "disable", "disabled"):
                v = False
            else:
                raise ConfigError("bad truncate_error")
        rec["truncate_error"] = bool(v)
    for k in ("block_size", "parallelism"):
        if k in kw:
            v = kw[k]
            if isinstance(v, str):
                v = int(v)
            if v < 1:
                if not relaxed:
                    raise ConfigError(f"{k} too small")
                v = 1
            rec["extra"][k] = v
    if "algs" in kw:
        v = kw["algs"]
        names = [a.strip() for a in v.split(",")] if isinstance(v, str) else list(v)
        iana = {"sha1": "sha-1", "sha256": "sha-256", "sha512": "sha-512", "sha224": "sha-224", "sha384": "sha-384"}
        names = sorted({iana.get(a.lower(), a.lower()) for a in names})
        if "sha-1" not in names or any(len(a) > 9 for a in names):
            raise ConfigError("bad algs")  # SCRAM: sha-1 is mandatory, names are limited to 9 characters
        rec["extra"]["algs"] = names
    if "variant" in kw:
        v = kw["variant"]
        names = {"sha1": 0, "sha256": 1, "sha384": 2, "sha512": 3}
        if isinstance(v, str):
            v = names[v] if v in names else (int(v) if v.isdigit() else None)
        if v not in (0, 1, 2, 3):
            raise ConfigError("bad variant")
        rec["extra"]["default_variant"] = v
    if "version" in kw:
        if kw["version"] not in (1, 2):
            raise ConfigError("bad version")
        rec["extra"]["version"] = kw["version"]
    if name == "bcrypt_sha256" and rec["extra"].get("version", 2) > 1 and rec["ident"] != "$2b$":
        # documented: version 2 only exists for the 2b variant -- whichever of the two settings was inherited
        raise ConfigError("ident not allowed for this version")
    if "marker" in kw:
        m = kw["marker"]
        if not m or m[0] not in "!*":
            raise ConfigError("bad marker")
        rec["extra"]["default_marker"] = m
    return rec


#: documented short names of the ident values (docs/lib/passlib.hash.bcrypt.rst, phpass.rst) -- not read from the hasher
DOC_IDENT_ALIASES = {"2": "$2$", "2a": "$2a$", "2y": "$2y$", "2b": "$2b$", "P": "$P$", "H": "$H$"}


def norm_ident(h, ident):
    if isinstance(ident, bytes):
        ident = ident.decode("ascii")  # settings are text or ASCII bytes alike
    h = getattr(h, "wrapped", h)  # a prefix wrapper takes the wrapped format's idents
    vals = list(getattr(h, "ident_values", ()) or ())
    aliases = {k: v for k, v in DOC_IDENT_ALIASES.items() if k in (getattr(h, "ident_aliases", None) or {}) and v in vals}
    if ident in vals:
        return ident
    if ident in aliases:
        return aliases[ident]
    raise ConfigError("bad ident")


def too_costly(h, cheap, d):
    if cheap is None:
        return False
    if d is None:
        return True
    if getattr(h, "rounds_cost", "linear") == "log2":
        return d > cheap[1] + 1
    return d > cheap[1] * 3


def probe(rec, name, node_obj, node_rec, cheap, where, hist, soft):
    """hash with the node and compare with what its model record predicts"""
    h = table.handler(name)
    f = table.T[name]
    fail = lambda bucket, what, obs, exp: rec.fail(f"C09/{bucket}/{name}", what, "history", hist, obs, exp, soft=soft)  # noqa: E731
    if name in HARD_LIMITS and (node_obj.min_rounds, node_obj.max_rounds) != HARD_LIMITS[name]:
        fail(f"{where}-hard-limits", f"{where}: the hasher's hard cost limits are not the format's", (node_obj.min_rounds, node_obj.max_rounds), HARD_LIMITS[name])
        return False
    for attr in ("django_name", "name"):
        if hasattr(h, attr) and getattr(node_obj, attr, None) != getattr(h, attr):
            fail(f"{where}-attribute-lost", f"{where}: the derived hasher lost / changed its {attr}", getattr(node_obj, attr, None), getattr(h, attr))
            return False
    if node_rec["extra"].get("algs") and list(getattr(node_obj, "default_algs", [])) != node_rec["extra"]["algs"]:
        fail(f"{where}-algs-attr", f"{where}: default_algs differs from the model", list(getattr(node_obj, "default_algs", [])), node_rec["extra"]["algs"])
        return False
    # attributes documented in the PasswordHash API
    if "rounds" in getattr(h, "setting_kwds", ()):
        got = (node_obj.min_desired_rounds, node_obj.max_desired_rounds, node_obj.default_rounds)
        want = (node_rec["min"], node_rec["max"], node_rec["default"])
        if got != want:
            fail(f"{where}-rounds-attrs", f"{where}: (min_desired_rounds, max_desired_rounds, default_rounds) differ from the model", got, want)
            return False
    if node_rec["salt_size"] is not None and getattr(node_obj, "default_salt_size", None) != node_rec["salt_size"]:
        fail(f"{where}-salt-size-attr", f"{where}: default_salt_size differs from the model", getattr(node_obj, "default_salt_size", None), node_rec["salt_size"])
        return False
    ident_holder = node_obj.wrapped if hasattr(node_obj, "wrapped") and getattr(node_obj, "default_ident", None) is None else node_obj
    if node_rec["ident"] is not None and getattr(ident_holder, "default_ident", None) != node_rec["ident"]:
        fail(f"{where}-ident-attr", f"{where}: default_ident differs from the model", getattr(ident_holder, "default_ident", None), node_rec["ident"])
        return False
    if node_rec["truncate_error"] is not None and bool(getattr(node_obj, "truncate_error", None)) != bool(node_rec["truncate_error"]):
        fail(f"{where}-truncate-attr", f"{where}: truncate_error differs from the model", getattr(node_obj, "truncate_error", None), node_rec["truncate_error"])
        return False
    # behaviour: a hash made by the node carries the node's settings
    d = node_rec["default"]
    if too_costly(h, cheap, d):
        return True  # hashing at this node's cost is too expensive to probe (globals with production defaults)
    ctx = {"user": "u"} if "user" in f.ctx else {}
    st, hs = call(node_obj.hash, "pw", **ctx)
    if st == "err":
        if name == "scrypt" and node_rec["ident"] == "$7$" and (node_rec["salt_size"] or 0) > 768 and isinstance(hs, ValueError):
            return True  # a combination the format forbids ($7$ feeds the encoded salt, 4/3 as long, to a KDF limited to 1024 bytes): ValueError no later than hash()
        fail(f"{where}-hash-raises", f"{where}: hash() raises", repr(hs), None)
        return False
    if f.disabled:
        m = node_rec["extra"].get("default_marker")
        if m and hs != m:
            fail(f"{where}-marker", f"{where}: disabled marker differs from the configured one", hs, m)
            return False
        return True
    obj = ctxmodel_parse(name, hs)
    r = getattr(obj, "rounds", None)
    if r is not None and d is not None:
        mn, mx, vary = node_rec["min"], node_rec["max"], node_rec["vary"]
        if (r < h.min_rounds) or (h.max_rounds and r > h.max_rounds):
            fail(f"{where}-outside-hard-limits", f"{where}: produced a hash outside the format's hard limits", r, [h.min_rounds, h.max_rounds])
            return False
        if (mn and r < mn) or (mx and r > mx):
            if not (name == "bsdi_crypt" and mn and mx and mn == mx and mn % 2 == 0):
                fail(f"{where}-outside-window", f"{where}: produced a hash outside the configured window", r, [mn, mx])
                return False
        if not vary:
            ok = (r % 2 == 1 and abs(r - d) <= 1) if name == "bsdi_crypt" else r == d
            if not ok:
                fail(f"{where}-cost", f"{where}: hash does not carry the configured default cost", r, d)
                return False
    # a hasher never asks to replace the hash it has just made (C09: "honours its settings")
    no_odd_value = name == "bsdi_crypt" and node_rec["min"] and node_rec["min"] == node_rec["max"] and node_rec["min"] % 2 == 0  # window without an odd value: unsatisfiable
    if hasattr(node_obj, "needs_update") and not no_odd_value:
        st, nu = call(node_obj.needs_update, hs)
        if st == "err" or nu is not False:
            fail(f"{where}-flags-own-hash", f"{where}: needs_update() of the hasher's own fresh hash is not False", repr(nu), False)
            return False
    salt = getattr(obj, "salt", None)
    if salt is not None and node_rec["salt_size"] is not None and "salt_size" in h.setting_kwds and len(salt) != node_rec["salt_size"] and not hs.startswith("$7$"):
        fail(f"{where}-salt-size", f"{where}: hash does not carry the configured salt size", len(salt), node_rec["salt_size"])
        return False
    if node_rec["ident"] is not None and getattr(obj, "ident", None) is not None and obj.ident != node_rec["ident"]:
        fail(f"{where}-ident", f"{where}: hash does not carry the configured ident", obj.ident, node_rec["ident"])
        return False
    for k in ("block_size", "parallelism"):
        if node_rec["extra"].get(k) is not None and hasattr(obj, k) and getattr(obj, k) != node_rec["extra"][k]:
            fail(f"{where}-{k}", f"{where}: hash does not carry the configured {k}", getattr(obj, k), node_rec["extra"][k])
            return False
    if node_rec["extra"].get("algs") and sorted(getattr(obj, "algs", None) or []) != node_rec["extra"]["algs"]:
        fail(f"{where}-algs", f"{where}: hash does not carry the configured digest list", getattr(obj, "algs", None), node_rec["extra"]["algs"])
        return False
    if node_rec["extra"].get("version") is not None and getattr(obj, "version", None) != node_rec["extra"]["version"]:
        fail(f"{where}-version", f"{where}: hash does not carry the configured format version", getattr(obj, "version", None), node_rec["extra"]["version"])
        return False
    if node_rec["extra"].get("default_variant") is not None and hasattr(obj, "variant") and obj.variant != node_rec["extra"]["default_variant"]:
        fail(f"{where}-variant", f"{where}: hash does not carry the configured variant", obj.variant, node_rec["extra"]["default_variant"])
        return False
    return True


def ctxmodel_parse(name, hs):
    h = table.handler(name)
    if not hasattr(h, "from_string") and hasattr(h, "wrapped"):
        return h.wrapped.from_string((h.orig_prefix or "") + hs[len(h.prefix):])
    return h.from_string(hs)


def apply_ops(rec, hist, soft=False):
    """hist: {name, ops:[["derive", parent_index, kw] | ["needs_update", node_index, rounds] | ["truncate", node_index]]}"""
    name = hist["name"]
    h = table.handler(name)
    cheap = FAMILIES[name]
    f = table.T[name]
    nodes = [(h, base_record(name))]
    root_snapshot = base_record(name)
    derivations = 0
    nontrivial = False
    for i, op in enumerate(hist["ops"]):
        sub = dict(hist, ops=hist["ops"][: i + 1])
        if op[0] == "narrow":
            # derive a child whose window is a narrow band around the parent's default (everything else, vary_rounds included, inherited)
            _, pi, a, b, vary = op
            d = nodes[pi % len(nodes)][1]["default"]
            if d is None or "rounds" not in h.setting_kwds:
                continue
            if getattr(h, "rounds_cost", "") == "log2":
                a, b = a % 2, b % 2
            kw = {"min_rounds": max(h.min_rounds, d - a), "max_rounds": min(d + b, h.max_rounds or 10**9)}
            if vary is not None:
                kw["vary_rounds"] = vary
            op = ["derive", pi, kw]
        if op[0] == "derive":
            _, pi, kw = op
            pi %= len(nodes)
            pobj, prec = nodes[pi]
            try:
                want = model_derive(name, prec, kw)
                err = None
            except ConfigError as e:
                want, err = None, str(e)
            except (ValueError, KeyError) as e:
                want, err = None, f"bad value: {e}"
            st, child = call(pobj.using, **kw)
            if err is not None:
                exp_type = TypeError if "alias" in err else ValueError
                if st == "ok":
                    rec.fail(f"C09/invalid-accepted/{name}", f"using({sorted(kw)}) with an invalid/contradictory value ({err}) is accepted", "history", sub, None, exp_type.__name__, soft=soft)
                    return nontrivial
                if not isinstance(child, (ValueError, TypeError)):
                    rec.fail(f"C09/invalid-wrong-error/{name}/{type(child).__name__}", f"using() with an invalid value raised {type(child).__name__}", "history", sub, repr(child), exp_type.__name__, soft=soft)
                    return nontrivial
                rec.count("derive:refused")
                nontrivial = nontrivial or bool(kw.get("relaxed") is None and derivations)
            else:
                if st == "err":
                    rec.fail(f"C09/valid-refused/{name}", f"using({sorted(kw)}) with values the documented rules accept is refused", "history", sub, repr(child), want, soft=soft)
                    return nontrivial
                if child is pobj or child is h:
                    rec.fail(f"C09/not-a-new-object/{name}", "using() returned the hasher it was called on", "history", sub, None, None, soft=soft)
                    return nontrivial
                nodes.append((child, want))
                derivations += 1
                if derivations >= 2 or kw.get("relaxed"):
                    nontrivial = True
                if not probe(rec, name, child, want, cheap, "derived", sub, soft):
                    return nontrivial
        elif op[0] == "needs_update":
            _, ni, r = op
            ni %= len(nodes)
            obj, nrec = nodes[ni]
            if cheap is None or "rounds" not in h.setting_kwds:
                continue
            r = max(h.min_rounds, min(r, cheap[1] + 1 if getattr(h, "rounds_cost", "") == "log2" else cheap[1] * 2))
            kw = {"rounds": r}
            ctx = {"user": "u"} if "user" in f.ctx else {}
            hs = h.using(**kw).hash("pw", **ctx)
            rr = ctxmodel_parse(name, hs).rounds
            want = bool((nrec["min"] and rr < nrec["min"]) or (nrec["max"] and rr > nrec["max"]) or ctxmodel.scheme_flag(name if name != "ldap_sha256_crypt" else "sha256_crypt", hs))
            if name == "scram":
                # documented in the source: a hash lacking one of the configured digests is flagged
                want = want or not set(ctxmodel_parse(name, hs).algs) >= set(nrec["extra"].get("algs") or [])
            if name == "scrypt":
                # documented in the source: hashes whose block size / parallelism is not the hasher's configured one are flagged as well
                po = ctxmodel_parse(name, hs)
                want = want or po.block_size != (nrec["extra"].get("block_size") or 8) or po.parallelism != (nrec["extra"].get("parallelism") or 1)
            st, got = call(obj.needs_update, hs)
            if st == "err" or got is not want:
                rec.fail(f"C09/needs-update/{name}", f"needs_update() of a hash with {rr} rounds is {got!r}; the node's window is [{nrec['min']}, {nrec['max']}]", "history", sub, repr(got), want, soft=soft)
                return nontrivial
        elif op[0] == "truncate" and f.trunc and name != "lmhash":
            _, ni = op
            ni %= len(nodes)
            obj, nrec = nodes[ni]
            d = nrec["default"]
            if too_costly(h, cheap, d):
                continue
            from passlib import exc

            st, res = call(obj.hash, "x" * (f.trunc + 5))
            want_raise = bool(nrec["truncate_error"])
            if want_raise != (st == "err" and isinstance(res, exc.PasswordTruncateError)):
                rec.fail(f"C09/truncate-policy/{name}", "hash() of an over-long password does not follow the node's truncate_error setting", "history", sub, repr(res)[:80], "raises" if want_raise else "accepted", soft=soft)
                return nontrivial
        # isolation invariant: every node, and the global, still behaves as its own record predicts
        for j, (obj, nrec) in enumerate(nodes):
            if not probe(rec, name, obj, nrec, cheap, "global" if j == 0 else f"node{j}", sub, soft):
                return nontrivial
        if base_record(name) != root_snapshot or table.handler(name) is not h:
            rec.fail(f"C09/global-changed/{name}", "the global hasher object in passlib.hash changed after deriving from it", "history", sub, base_record(name), root_snapshot, soft=soft)
            return nontrivial
    return nontrivial


@oracle(PROPERTY, "history")
def o_history(rec, case, soft=False):
    apply_ops(rec, case, soft=soft)


ORACLES = {"history": o_history}


def kw_strategy(name, first):
    from hypothesis import strategies as st

    h = table.handler(name)
    cheap = FAMILIES[name]
    parts = {}
    if cheap and "rounds" in h.setting_kwds:
        lo, hi = cheap
        inside = st.integers(lo, hi)
        edge = st.sampled_from([h.min_rounds, h.min_rounds - 1, lo, hi, 0, -1] + ([h.max_rounds, h.max_rounds + 1] if h.max_rounds and h.max_rounds <= hi * 4 else []))
        val = st.one_of(inside, inside, inside, edge)
        sval = st.one_of(val, val.map(str))
        parts["rounds"] = sval
        parts["min_rounds"] = sval
        parts["max_rounds"] = sval
        parts["default_rounds"] = sval
        parts["min_desired_rounds"] = sval
        parts["max_desired_rounds"] = sval
        parts["vary_rounds"] = st.sampled_from([0, 1, 3, "10%", 0.2, "30%", 0.5, "1", -1, 1.5, "0.1", "12.5%", "0.5%"])
    if "salt_size" in h.setting_kwds:
        lo, hi = h.min_salt_size, h.max_salt_size
        top = hi if hi is not None else 40
        parts["salt_size"] = st.one_of(st.integers(lo, min(top, 40)), st.sampled_from([lo, min(top, 64), lo - 1, top + 1, str(lo)]))
    ih = getattr(h, "wrapped", h)
    if getattr(ih, "ident_values", None):
        good = list(ih.ident_values) + list((getattr(ih, "ident_aliases", None) or {}).keys())
        good = [g for g in good if "2x" not in g]
        parts["ident"] = st.one_of(st.sampled_from(good), st.sampled_from(good).map(lambda g: g.encode("ascii")), st.sampled_from(["$zz$", "nope"]))
    if "truncate_error" in getattr(h, "setting_kwds", ()):
        parts["truncate_error"] = st.sampled_from([True, False, "true", "false", "yes", "0"])
    if name == "scrypt":
        parts["block_size"] = st.sampled_from([1, 2, 8, "2", 0])
        parts["parallelism"] = st.sampled_from([1, 2, 3, 0, "2", "3"])
    if name == "bcrypt_sha256":
        parts["version"] = st.sampled_from([1, 2, 1, 2, 3, 0])
    if name == "fshp":
        parts["variant"] = st.sampled_from([0, 1, 2, 3, "sha256", "1", 7, "md5"])
    if name == "scram":
        parts["algs"] = st.sampled_from(["sha-1", "sha-256,sha-1", "SHA1,sha256", "sha-1,md5", ["sha-1", "sha-512"], "sha-1,sha-256,sha-512", "sha-256", "sha-1,sha512_256", "md5"])
    if name == "unix_disabled":
        parts["marker"] = st.sampled_from(["!", "*", "!!", "*LK*", "x", ""])
    keys = sorted(parts)
    costly = [k for k in keys if "rounds" in k]
    structural = [k for k in keys if "rounds" not in k]

    # one out-of-range value with relaxed=True: documented to be clamped to the nearest limit (with a warning) instead of refused
    beyond = {}
    if "rounds" in h.setting_kwds and not first:
        for k in ("min_rounds", "max_rounds", "default_rounds"):
            beyond[k] = st.sampled_from([h.min_rounds - 1] + ([h.max_rounds + 1] if h.max_rounds else []))
    if "salt_size" in h.setting_kwds:
        # (scrypt: a 1024-byte salt does not fit the $7$ encoding -- the upper end is left to the ordinary strategy's smaller sizes)
        beyond["salt_size"] = st.sampled_from([h.min_salt_size - 1] + ([h.max_salt_size + 1] if h.max_salt_size and name != "scrypt" else []))
    if name == "scrypt":
        beyond["block_size"] = st.just(0)
        beyond["parallelism"] = st.just(0)
    beyond = {k: v for k, v in beyond.items() if k in parts}

    @st.composite
    def s(draw):
        kw = {}
        if beyond and draw(st.integers(0, 7)) == 0:
            k = draw(st.sampled_from(sorted(beyond)))
            kw = {k: draw(beyond[k]), "relaxed": True}
            if first and cheap and "rounds" in h.setting_kwds:
                kw["rounds"] = draw(st.integers(*cheap))
            return kw
        if first and cheap and "rounds" in h.setting_kwds:
            kw["rounds"] = draw(st.integers(*cheap))  # make the first child cheap to probe
            ks = draw(st.lists(st.sampled_from(structural), max_size=2, unique=True)) if structural else []
        else:
            # cost keywords and structural keywords (salt size, ident, variant, ...) are drawn separately so that neither crowds out the other
            ks = draw(st.lists(st.sampled_from(costly), max_size=2, unique=True)) if costly else []
            ks += draw(st.lists(st.sampled_from(structural), min_size=0 if ks else 1, max_size=2, unique=True)) if structural else []
        for k in ks:
            if k in parts:
                kw[k] = draw(parts[k])
        if draw(st.integers(0, 3)) == 0:
            kw["relaxed"] = True
        return kw

    return s()


def make_machine(rec, name):
    from hypothesis import strategies as st
    from hypothesis.stateful import RuleBasedStateMachine, rule

    first_kw = kw_strategy(name, True)
    later_kw = kw_strategy(name, False)

    class UsingMachine(RuleBasedStateMachine):
        def __init__(self):
            super().__init__()
            self.hist = {"name": name, "ops": []}

        def _step(self, op):
            if machine_guard(self):
                return
            self.hist["ops"].append(op)
            rec.ev()
            rec.count(f"op:{op[0]}")
            try:
                nt = apply_ops(rec, self.hist)
            except Violation as v:
                machine_fail(self, v)
            if nt:
                rec.nt(name, repr(self.hist["ops"]))

        @rule(pi=st.integers(0, 5), data=st.data())
        def derive(self, pi, data):
            nd = sum(1 for o in self.hist["ops"] if o[0] == "derive")
            kw = data.draw(first_kw if nd == 0 else later_kw)
            self._step(["derive", pi if nd else 0, kw])

        @rule(pi=st.integers(0, 5), a=st.integers(0, 60), b=st.integers(0, 60), vary=st.sampled_from([None, None, None, "30%", 0.2, 7]))
        def narrow(self, pi, a, b, vary):
            if any(o[0] == "derive" for o in self.hist["ops"]):
                self._step(["narrow", pi, a, b, vary])

        @rule(ni=st.integers(0, 5), r=st.integers(0, 3000))
        def needs_update(self, ni, r):
            self._step(["needs_update", ni, r])

        @rule(ni=st.integers(0, 5))
        def truncate(self, ni):
            self._step(["truncate", ni])

        def teardown(self):
            if len(self.hist["ops"]) > 3:
                rec.sample(f"history:{name}", {"name": name, "ops": self.hist["ops"][:10]})

    return UsingMachine


def t_machine(rec, seed, tier, name):
    if not table.available(name):
        rec.count(f"skipped_unavailable:{name}")
        return
    n, steps = {"quick": (120, 12), "thorough": (800, 30)}[tier]
    if "bcrypt" in name or name == "scrypt":
        n = max(8, n // 4)
    hyp_machine(rec, make_machine(rec, name), n, steps, seed, shrink_budget=20)


def tasks(tier):
    return [{"name": f"machine-{name}", "fn": "t_machine", "kw": {"name": name}} for name in FAMILIES]
