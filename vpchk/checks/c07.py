"""C07 -- hash strings parse and re-render without loss."""

from __future__ import annotations

from ..common import Recorder, call, hyp_campaign, oracle
from ..gens import strategies as S
from ..gens import table
from ..refs import formats as RF

PROPERTY = "C07"
LEVEL = "exploration"
RULE = (
    "Hypothesis cases (hasher, settings over the whole settings space of the format table incl. implicit encodings such as sha-crypt "
    "5000 with/without 'rounds=', dlitz 400, zero-size salts, $7$ fields, sun_md5 bare-salt and $$ forms (reference-made strings), "
    "scram alg subsets, fshp variants), the hash given as str and ASCII bytes, plus accepted variants (hex case flip, '+' for '.' in "
    "ab64 fields, dirty bcrypt padding bits, django_des_crypt with elided salt, explicit rounds=5000, hex-zero-free dlitz 400); "
    "LDAP/Django prefix-wrapped forms; libpass inspect_bcrypt_hash / inspect_sha_crypt / inspect_pbkdf2_hash / inspect_phc over "
    "strings from both APIs and over generated field values. Oracle: f = to_string(from_string(.)): f(h)==h for every produced h; "
    "the parsed object reports exactly the configured rounds/salt/ident/variant/version/block_size/parallelism/algs; for every "
    "accepted variant v: f(f(v))==f(v), verify(p,v)==verify(p,f(v)) for right and wrong p, and documented re-encodings verify the "
    "right password; wrappers: unwrap/wrap round trip and agreement with the wrapped hasher; libpass: inspect(h).as_str()==h and "
    "inspect(rec.as_str())==rec. Non-trivial = settings differing from the class defaults in >=1 field, an elided/implicit "
    "encoding, or bytes input."
)
ASSUMPTIONS = [
    "canonical forms are not hard-coded: idempotence + equality with the produced string + verify-equivalence is the oracle",
    "reference-made strings (vpchk/refs) supply the forms using() cannot express (bare salt, even bsdi rounds)",
]
LEVEL_TEXT = (
    "Seeded generated-input round-trip testing of every hasher's parser/renderer over the full settings space and over accepted "
    "variant encodings, with the configured settings as the expected parse result; libpass inspection records are generated "
    "field-wise within their documented alphabets."
)
LEVEL_NOTE = "Trusted: Hypothesis, the settings generators of the format table, vpchk/refs for forms using() cannot produce."
TECHNIQUE = "Hypothesis round-trip / idempotence testing of parse and render over generated settings and accepted variants"
#: thorough tier: seed-dependent tasks are repeated under this many derived seeds (run.py); the listed task functions enumerate fixed domains
THOROUGH_REPS = 6
DETERMINISTIC_FNS = ('t_small_fields', 't_inspect_bank')
RULE += " identify / verify / needs_update must read the str and the ASCII-bytes form of a produced hash alike."

HEXCASE = {"hex_md4", "hex_md5", "hex_sha1", "hex_sha256", "hex_sha512", "nthash", "lmhash", "msdcc", "msdcc2", "mysql323", "mysql41",
           "mssql2000", "mssql2005", "oracle10", "oracle11", "postgres_md5", "django_salted_md5", "django_salted_sha1", "grub_pbkdf2_sha512",
           "bsd_nthash", "ldap_hex_md5", "ldap_hex_sha1", "htdigest", "cisco_type7"}
AB64 = {"pbkdf2_sha1", "pbkdf2_sha256", "pbkdf2_sha512", "ldap_pbkdf2_sha1", "ldap_pbkdf2_sha256", "ldap_pbkdf2_sha512", "scram", "dlitz_pbkdf2_sha1"}


def f_roundtrip(h, text, **ctx):
    return h.from_string(text, **ctx).to_string()


def variants(name, hs, settings):
    """accepted-variant candidates of a produced hash: [(label, text, documented_reencoding?)]"""
    out = []
    if name in HEXCASE:
        # flip the case of the final (digest) field only; whether upper/lower case is *accepted* is format specific,
        # so these variants are judged for consistency (idempotence, verify-equivalence), not for acceptance
        cut = max(hs.rfind("$"), hs.rfind("."), hs.rfind(":"), hs.rfind("}"), hs.rfind("*"), 2 if hs[:2] in ("0x", "md") else -1) + 1
        if hs[:3] == "md5" and "$" not in hs:
            cut = 3
        head, tail = hs[:cut], hs[cut:]
        # documented: "MySQL always uses upper-case letters, and so does Passlib (though Passlib will recognize lower-case letters as well)" (mysql41;
        # mysql323 the other way round): for these two the other case is a documented re-encoding of the same hash
        doc = name in ("mysql41", "mysql323")
        if tail.upper() != tail:
            out.append(("hex-upper", head + tail.upper(), doc))
        if tail.lower() != tail:
            out.append(("hex-lower", head + tail.lower(), doc))
    if name in AB64 and "." in hs.split("$", 2)[-1]:
        head, _, tail = hs.rpartition("$")
        if "." in tail:
            out.append(("ab64-plus", head + "$" + tail.replace(".", "+"), False))
    base = table.T[name].base
    if base == "bcrypt" or name in ("bcrypt",):
        pre = table.T[name].prefix
        body = hs[len(pre):]
        # $2x$NN$ + 22 salt + 31 digest: dirty padding bits in the last salt char and the last digest char
        i = body.index("$", 4) + 1
        salt_last = i + 21
        alt = {".": "/", "O": "P", "e": "f", "u": "v"}
        if body[salt_last] in alt:
            out.append(("bcrypt-dirty-salt", pre + body[:salt_last] + alt[body[salt_last]] + body[salt_last + 1:], True))
        bc = table.BC64
        last = body[-1]
        k = bc.index(last)
        if k % 4 == 0:
            out.append(("bcrypt-dirty-digest", pre + body[:-1] + bc[k + 1], True))
    if name == "django_des_crypt":
        parts = hs.split("$")
        out.append(("django-des-elided-salt", "crypt$$" + parts[2], True))
    if base in ("sha256_crypt", "sha512_crypt") or name in ("sha256_crypt", "sha512_crypt"):
        pre = table.T[name].prefix
        body = hs[len(pre):]
        if "rounds=" not in body:
            out.append(("sha-explicit-5000", pre + body[:3] + "rounds=5000$" + body[3:], True))
        elif "rounds=5000$" in body:
            out.append(("sha-implicit-5000", pre + body.replace("rounds=5000$", ""), True))
    if name == "dlitz_pbkdf2_sha1" and hs.startswith("$p5k2$$"):
        pass  # "$p5k2$190$" is a different salt string for dlitz (config is the salt): not a re-encoding
    return out


@oracle(PROPERTY, "handler_roundtrip")
def o_handler(rec: Recorder, case, soft=False):
    name, settings, ctx, secret = case["name"], case["settings"], case["ctx"], case["secret"]
    f = table.T[name]
    h = table.handler(name)
    if case.get("ref_made"):
        hs = RF.ref_hash(name, secret, RF.norm_settings(name, settings), ctx)
        if hs is None:
            rec.count("ref_made_not_applicable")
            return
    else:
        hs = (h.using(**settings) if settings else h).hash(secret, **ctx)
    pctx = {k: v for k, v in ctx.items() if k in ("user", "realm", "encoding") and k in getattr(h, "context_kwds", ())}
    has_fs = hasattr(h, "from_string")
    wrong = ("Zq" if isinstance(secret, str) else b"Zq") + secret
    _ns = RF.norm_settings(name, settings)
    try:
        wrong_differs = f.key(wrong, _ns, ctx) != f.key(secret, _ns, ctx)
    except (UnicodeError, ValueError):
        wrong_differs = False
    # str and ASCII-bytes input are read alike by every entry point that parses a hash
    if hs.isascii() and not f.plaintext:
        hb = hs.encode("ascii")
        for label, fn in (("identify", lambda x: h.identify(x)), ("verify", lambda x: h.verify(secret, x, **pctx)), ("verify-wrong", lambda x: h.verify(wrong, x, **pctx)),
                          ("needs_update", lambda x: h.needs_update(x))):
            a, b = call(fn, hs), call(fn, hb)
            if a[0] == "err" and not isinstance(a[1], (ValueError, TypeError)):
                raise a[1]
            if a[0] == "ok" and (b[0] == "err" or a[1] != b[1]):
                rec.fail(f"C07/bytes-form/{name}/{label}", f"{name}.{label}() reads the ASCII-bytes form of a produced hash differently from the str form", "handler_roundtrip", case, repr(b[1])[:120], repr(a[1])[:120], soft=soft)
                return
    if has_fs:
        for form in (hs, hs.encode("ascii") if hs.isascii() else None):
            if form is None:
                continue
            st, r = call(lambda: h.from_string(form, **_fs_ctx(h, pctx)).to_string())
            if st == "err":
                rec.fail(f"C07/own-hash-unparseable/{name}", f"{name}.from_string rejects a hash {name} produced ({'bytes' if isinstance(form, bytes) else 'str'})", "handler_roundtrip", case, repr(r), hs, soft=soft)
                return
            if r != hs:
                rec.fail(f"C07/render-differs/{name}", f"{name}: to_string(from_string(h)) != h for a produced hash", "handler_roundtrip", case, r, hs, soft=soft)
                return
        obj = h.from_string(hs, **_fs_ctx(h, pctx))
        ns = RF.norm_settings(name, settings)
        for key in ("rounds", "salt", "ident", "variant", "version", "block_size", "parallelism", "bare_salt"):
            if key in ns and hasattr(obj, key):
                got, want = getattr(obj, key), ns[key]
                if key == "salt" and name == "django_des_crypt":
                    want = want  # full salt is stored
                if got != want:
                    rec.fail(f"C07/parsed-setting/{name}/{key}", f"{name}: parsed {key} differs from the configured one", "handler_roundtrip", case, repr(got), repr(want), soft=soft)
                    return
        if name == "scram" and sorted(obj.algs) != sorted(ns["algs"]):
            rec.fail("C07/parsed-setting/scram/algs", "scram: parsed algs differ from the configured ones", "handler_roundtrip", case, obj.algs, ns["algs"], soft=soft)
            return
        if isinstance(getattr(obj, "checksum", None), str) and not hs.endswith(obj.checksum) and name not in ("oracle11", "mssql2000", "mssql2005"):
            rec.fail(f"C07/parsed-checksum/{name}", f"{name}: parsed checksum is not the digest region of the string", "handler_roundtrip", case, obj.checksum, hs, soft=soft)
            return
        st, ph = call(h.parsehash, hs) if hasattr(h, "parsehash") and not pctx else ("skip", None)
        if st == "ok":
            for key, val in ph.items():
                if key in ns and key != "checksum" and val != ns[key] and not (key == "algs" and sorted(val) == sorted(ns[key])):
                    rec.fail(f"C07/parsehash/{name}/{key}", f"{name}.parsehash reports a {key} that was not configured", "handler_roundtrip", case, repr(val), repr(ns[key]), soft=soft)
                    return
            # the reported settings (plus checksum) must be enough to rebuild exactly this hash
            ph2 = {k: v for k, v in ph.items() if not (name == "scram" and k == "algs")}  # scram: the checksum dict carries the algs
            reportable = all(k in h.setting_kwds for k in ns if k not in ("implicit_rounds",))
            st2, rebuilt = call(lambda: h(**ph2).to_string()) if reportable else ("skip", None)
            if st2 != "skip" and (st2 == "err" or rebuilt != hs):
                missing = [k for k in ("rounds", "salt", "ident", "variant") if k in ns and k not in ph]
                rec.fail(f"C07/parsehash-incomplete/{name}", f"{name}.parsehash() does not report all the settings the hash was made with (missing {missing}): the hasher cannot be rebuilt from it",
                         "handler_roundtrip", case, repr(rebuilt), hs, soft=soft)
                return
            # sanitize=<callable>: the caller's masking function is applied to the secret-bearing fields (salt, checksum), nothing else changes
            mark = lambda value: ("masked-by-caller", repr(value))  # noqa: E731
            st3, masked = call(h.parsehash, hs, sanitize=mark)
            if st3 == "err":
                raise masked
            for key, val in ph.items():
                want = mark(val) if key in getattr(h, "_unsafe_settings", ("salt", "checksum")) else val
                if masked.get(key) != want:
                    rec.fail(f"C07/parsehash-sanitize/{name}", f"{name}.parsehash(hash, sanitize=<callable>) does not apply the caller's function to {key}", "handler_roundtrip", case, repr(masked.get(key)), repr(want), soft=soft)
                    return
        elif st == "err":
            raise ph
        if name == "scram":
            # the digest list of a stored hash, in the naming scheme the caller asks for
            want_iana = sorted(obj.algs)
            hashlib_names = {"sha-1": "sha1", "sha-256": "sha256", "sha-512": "sha512", "sha-224": "sha224", "sha-384": "sha384", "md5": "md5"}
            got = (h.extract_digest_algs(hs), h.extract_digest_algs(hs, format="iana"), h.extract_digest_algs(hs, format="hashlib"))
            want = (want_iana, want_iana, [hashlib_names.get(a, a) for a in want_iana])
            if tuple(sorted(g) for g in got) != tuple(sorted(w) for w in want):
                rec.fail("C07/scram-extract-algs", "scram.extract_digest_algs() does not report the stored digest list in the requested naming scheme", "handler_roundtrip", case, got, want, soft=soft)
                return
    # variants
    if has_fs and not f.disabled and not f.plaintext:
        for label, v, documented in variants(name, hs, settings):
            st, fv = call(lambda: h.from_string(v, **_fs_ctx(h, pctx)).to_string())
            if st == "err":
                if isinstance(fv, ValueError):
                    rec.count(f"variant-not-accepted:{label}")
                    continue
                raise fv
            rec.count(f"variant:{label}")
            ffv = h.from_string(fv, **_fs_ctx(h, pctx)).to_string()
            if ffv != fv:
                rec.fail(f"C07/not-idempotent/{name}/{label}", f"{name}: re-rendering an accepted variant is not idempotent", "handler_roundtrip", case, [v, fv, ffv], None, soft=soft)
                return
            for p, expect in ((secret, True), (wrong, False)):
                a, b = h.verify(p, v, **pctx), h.verify(p, fv, **pctx)
                if a != b:
                    rec.fail(f"C07/variant-verify-differs/{name}/{label}", f"{name}: a variant and its re-rendering verify differently", "handler_roundtrip", case, [v, a, fv, b], None, soft=soft)
                    return
                if documented and a is not expect and (p is secret or wrong_differs):
                    rec.fail(f"C07/variant-verify/{name}/{label}", f"{name}: documented re-encoding ({label}) verifies {a} for the {'right' if expect else 'wrong'} password", "handler_roundtrip", case, [v, a], expect, soft=soft)
                    return
    # the same hash as written by an independent implementation of the format (letter case, padding, field order of the specification)
    # is a well-formed hash string: it parses and renders back to itself
    if has_fs and not case.get("ref_made") and not f.plaintext and not f.disabled:
        try:
            ref_text = RF.ref_hash(name, secret, _ns, ctx)
        except (UnicodeError, ValueError, KeyError):
            ref_text = None
        if ref_text is not None and h.identify(ref_text):
            st, back = call(lambda: h.from_string(ref_text, **_fs_ctx(h, pctx)).to_string())
            if st == "err" or back != ref_text:
                rec.fail(f"C07/reference-string-render/{name}", f"{name}: a hash string written by an independent implementation of the format does not render back to itself", "handler_roundtrip", case, repr(back)[:160], ref_text[:160], soft=soft)
                return
    # genhash(secret, <hash>) -- the documented (deprecated) two-step API -- reproduces the hash for the right password
    if hasattr(h, "genhash") and not f.disabled and not f.plaintext:
        st, gh = call(h.genhash, secret, hs, **pctx)
        if st == "err" or gh != hs:
            rec.fail(f"C07/genhash/{name}", f"{name}: genhash(secret, hash) does not reproduce the hash", "handler_roundtrip", case, repr(gh), hs, soft=soft)
            return
    # config-only form (settings without digest): parses to the same settings, renders back to itself, and genhash() against it reproduces the hash
    if has_fs and f.salt and not f.plaintext and not f.disabled and not case.get("ref_made"):
        obj0 = h.from_string(hs, **_fs_ctx(h, pctx))
        if getattr(obj0, "checksum", None) is not None:
            obj0.checksum = None
            st, cfg = call(obj0.to_string)
            if st == "ok" and cfg != hs:
                st, back = call(lambda: h.from_string(cfg, **_fs_ctx(h, pctx)))
                if st == "err" and isinstance(back, ValueError):
                    rec.count("config-only-form-not-accepted")  # which formats still read the pre-1.7 config-only strings is not documented: judged only when accepted
                    back = None
                elif st == "err":
                    raise back
            if st == "ok" and cfg != hs and back is not None:
                ps0, ps1 = parsed_public(back), parsed_public(h.from_string(hs, **_fs_ctx(h, pctx)))
                if back.checksum is not None or back.to_string() != cfg or ps0 != ps1:
                    rec.fail(f"C07/config-string-differs/{name}", f"{name}: the config-only form parses to other settings / renders differently", "handler_roundtrip", case, [cfg, ps0], ps1, soft=soft)
                    return
                st, gh = call(h.genhash, secret, cfg, **pctx)
                if st == "err" or gh != hs:
                    rec.fail(f"C07/config-string-genhash/{name}", f"{name}: genhash(secret, <config string>) does not reproduce the hash", "handler_roundtrip", case, repr(gh), hs, soft=soft)
                    return
    # normhash() (bcrypt family): canonical form of accepted variants, identity on canonical and foreign strings
    if hasattr(h, "normhash") and "bcrypt" in name and has_fs:
        for label, v, documented in variants(name, hs, settings):
            if documented and h.normhash(v) != hs:
                rec.fail(f"C07/normhash/{name}", f"{name}.normhash() does not return the canonical form of an accepted variant ({label})", "handler_roundtrip", case, h.normhash(v), hs, soft=soft)
                return
        if h.normhash(hs) != hs or h.normhash("$1$abc$x") != "$1$abc$x":
            rec.fail(f"C07/normhash/{name}", f"{name}.normhash() changes a canonical / foreign string", "handler_roundtrip", case, None, None, soft=soft)
            return
    # prefix wrappers
    w = h
    if hasattr(w, "wrapped") and hasattr(w, "prefix") and not f.plaintext:
        inner = w.wrapped
        if not hs.startswith(w.prefix):
            rec.fail(f"C07/wrapper-prefix/{name}", f"{name}: produced hash lacks the wrapper prefix", "handler_roundtrip", case, hs, w.prefix, soft=soft)
            return
        orig = (w.orig_prefix or "") + hs[len(w.prefix):]
        if inner.identify(orig) is not True or inner.verify(secret, orig, **pctx) is not True:
            rec.fail(f"C07/wrapper-unwrap/{name}", f"{name}: unwrapped hash is not a valid hash of the wrapped hasher", "handler_roundtrip", case, orig, True, soft=soft)
            return
        ih = (inner.using(**{k: v for k, v in settings.items()}) if settings else inner).hash(secret, **pctx)
        rewrapped = w.prefix + ih[len(w.orig_prefix or ""):]
        if w.identify(rewrapped) is not True or w.verify(secret, rewrapped, **pctx) is not True or (wrong_differs and w.verify(wrong, rewrapped, **pctx) is not False):
            rec.fail(f"C07/wrapper-wrap/{name}", f"{name}: wrapping a hash of the wrapped hasher does not give a valid {name} hash", "handler_roundtrip", case, rewrapped, True, soft=soft)


def parsed_public(obj):
    return {k: getattr(obj, k, None) for k in ("rounds", "salt", "ident", "variant", "version", "block_size", "parallelism")}


def _fs_ctx(h, pctx):
    """context keywords from_string accepts (user for the user-context handlers)"""
    return {k: v for k, v in pctx.items() if k == "user"} if "user" in getattr(h, "context_kwds", ()) and False else {}


# ---- libpass inspection helpers ---------------------------------------------------------------------
@oracle(PROPERTY, "inspect")
def o_inspect(rec: Recorder, case, soft=False):
    """case: {kind: sha256|sha512|pbkdf2-sha256|pbkdf2-sha512|bcrypt|phc-bcrypt-sha256|phc-argon2, text? , fields?}"""
    from libpass.inspect import bcrypt as ib
    from libpass.inspect import pbkdf2 as ip
    from libpass.inspect import sha_crypt as isc
    from libpass.inspect.phc import inspect_phc
    from libpass.inspect.phc.defs import Argon2PHC, BcryptSHA256PHCV2

    kind = case["kind"]
    insp = {
        "sha256": lambda t: isc.inspect_sha_crypt(t, isc.SHA256CryptInfo),
        "sha512": lambda t: isc.inspect_sha_crypt(t, isc.SHA512CryptInfo),
        "pbkdf2-sha256": lambda t: ip.inspect_pbkdf2_hash(t, ip.PBKDF2SHA256CryptInfo),
        "pbkdf2-sha512": lambda t: ip.inspect_pbkdf2_hash(t, ip.PBKDF2SHA512CryptInfo),
        "bcrypt": ib.inspect_bcrypt_hash,
        "phc-bcrypt-sha256": lambda t: inspect_phc(t, BcryptSHA256PHCV2),
        "phc-argon2": lambda t: inspect_phc(t, Argon2PHC),
    }[kind]
    if "fields" in case:
        fl = case["fields"]
        cls = {
            "sha256": isc.SHA256CryptInfo, "sha512": isc.SHA512CryptInfo, "pbkdf2-sha256": ip.PBKDF2SHA256CryptInfo,
            "pbkdf2-sha512": ip.PBKDF2SHA512CryptInfo, "bcrypt": ib.BcryptHashInfo, "phc-bcrypt-sha256": BcryptSHA256PHCV2, "phc-argon2": Argon2PHC,
        }[kind]
        rec0 = cls(**fl)
        text = rec0.as_str()
        back = insp(text)
        if back != rec0:
            rec.fail(f"C07/inspect-record-roundtrip/{kind}", f"libpass {kind}: inspect(record.as_str()) != record", "inspect", case, [text, repr(back)], repr(rec0), soft=soft)
        return
    text = case["text"]
    info = insp(text)
    if info is None:
        rec.fail(f"C07/inspect-rejects/{kind}", f"libpass inspect helper ({kind}) does not recognise a well-formed hash of its format", "inspect", case, None, text, soft=soft)
        return
    out = info.as_str()
    if out != text:
        # an implicit-rounds sha-crypt string may legitimately come back with the default made explicit
        rec.fail(f"C07/inspect-render/{kind}", f"libpass {kind}: inspect(h).as_str() != h", "inspect", case, out, text, soft=soft)
        return
    if insp(out) != info:
        rec.fail(f"C07/inspect-reparse/{kind}", f"libpass {kind}: re-inspecting the rendered record gives a different record", "inspect", case, None, None, soft=soft)
        return
    # a parse result is the caller's own: editing the returned record (to render a derived string) must not change what the
    # next parse of the SAME text reports
    import copy
    import dataclasses

    if dataclasses.is_dataclass(info):
        snap, edited = copy.deepcopy(info), 0
        for f in dataclasses.fields(info):
            v = getattr(info, f.name)
            try:
                if isinstance(v, bool) or v is None:
                    continue
                if isinstance(v, int):
                    setattr(info, f.name, v + 1)
                elif isinstance(v, str) and v:
                    setattr(info, f.name, v[:-1] + ("A" if v[-1] != "A" else "B"))
                elif isinstance(v, bytes) and v:
                    setattr(info, f.name, v[:-1] + bytes([v[-1] ^ 1]))
                else:
                    continue
                edited += 1
            except (dataclasses.FrozenInstanceError, AttributeError, TypeError):
                pass
        if edited:
            rec.count("inspect:record-edited-then-reparsed")
            again = insp(text)
            if again is None or again != snap or again.as_str() != text:
                rec.fail(f"C07/inspect-shares-record/{kind}", f"libpass {kind}: after the caller edits a returned record, parsing the same text again no longer reports the text's own settings", "inspect", case, repr(again), repr(snap), soft=soft)
                return
        info = snap
    if kind == "bcrypt":
        # the record's settings are the ones the hash was made with: its salt/config string is the first 29 characters ($2b$NN$ + 22)
        if info.bcrypt_salt != text[:29].encode("ascii") or (info.prefix, "%02d" % info.rounds, info.salt, info.hash) != (text[1:3], text[4:6], text[7:29], text[29:]):
            rec.fail("C07/inspect-settings/bcrypt", "libpass bcrypt record does not report the settings of the hash (prefix, cost, salt, config string)", "inspect", case, repr(info.bcrypt_salt), text[:29], soft=soft)


@oracle(PROPERTY, "phc_b64")
def o_phc_b64(rec: Recorder, case, soft=False):
    """case: {text}: the PHC field codec of libpass is unpadded URL-safe base64 and decodes what it encodes"""
    import base64

    from libpass.inspect.phc import phc_b64_decode, phc_b64_encode

    t = case["text"]
    enc = phc_b64_encode(t)
    want = base64.urlsafe_b64encode(t.encode()).decode().rstrip("=")
    if enc != want or "=" in enc:
        rec.fail("C07/phc-b64/encode", "phc_b64_encode is not unpadded URL-safe base64", "phc_b64", case, enc, want, soft=soft)
        return
    st, dec = call(phc_b64_decode, enc)
    if st == "err" or dec != t:
        rec.fail("C07/phc-b64/roundtrip", "phc_b64_decode(phc_b64_encode(x)) != x", "phc_b64", case, repr(dec), t, soft=soft)


@oracle(PROPERTY, "inspect_candidate")
def o_inspect_candidate(rec: Recorder, case, soft=False):
    """case: {kind, text, must_reject?}: any string an inspect helper recognises must re-render to itself; strings that
    lack / contradict a mandatory field of the record type must not be recognised as that type"""
    from libpass.inspect.phc import inspect_phc
    from libpass.inspect.phc.defs import Argon2PHC, BcryptSHA256PHCV2

    kind, text = case["kind"], case["text"]
    defs = {"phc-argon2": Argon2PHC, "phc-bcrypt-sha256": BcryptSHA256PHCV2, "phc-both": [Argon2PHC, BcryptSHA256PHCV2], "phc-both-rev": [BcryptSHA256PHCV2, Argon2PHC]}[kind]
    info = inspect_phc(text, defs)
    if info is None:
        rec.count("inspect-candidate:rejected")
        return
    rec.count("inspect-candidate:recognised")
    if case.get("must_reject"):
        rec.fail(f"C07/inspect-accepts-wrong-record/{kind}", f"libpass inspect_phc recognises a string that lacks/contradicts a mandatory field of the record type ({case['must_reject']})", "inspect_candidate", case, repr(info), None, soft=soft)
        return
    if info.as_str() != text:
        rec.fail(f"C07/inspect-render/{kind}", "libpass inspect_phc(h).as_str() != h for a string it recognises", "inspect_candidate", case, info.as_str(), text, soft=soft)


ORACLES = {"handler_roundtrip": o_handler, "inspect": o_inspect, "inspect_candidate": o_inspect_candidate, "phc_b64": o_phc_b64}


# ---- tasks ------------------------------------------------------------------------------------------
def _nontrivial(rec, name, settings, case):
    h = table.handler(name)
    diff = [k for k, v in settings.items() if getattr(h, "default_" + k, getattr(h, k, None)) != v]
    if diff or case.get("ref_made") or case.get("bytes"):
        salt = settings.get("salt")
        rec.nt(name, sorted(k for k in settings), settings.get("rounds"), None if salt is None or isinstance(salt, int) else len(salt), settings.get("ident"),
               settings.get("variant"), settings.get("version"), bool(case.get("ref_made")))


def t_handler(rec, seed, tier, name):
    from hypothesis import strategies as st

    f = table.T[name]
    if not table.available(name):
        rec.count(f"skipped_unavailable:{name}")
        return
    n = {"quick": 60, "thorough": 800}[tier]
    if name in ("atlassian_pbkdf2_sha1", "msdcc2", "sun_md5_crypt") or "bcrypt" in name:
        n //= 3

    @st.composite
    def cases(draw):
        ctx = draw(S.contexts(name))
        secret = draw(st.sampled_from(["pw", "pässword", "x" * 20, ""])) if f.secret != "ldap_plain" else "pw"
        if f.secret in ("bytes", "nonul") and draw(st.booleans()):
            secret = secret.encode("utf-8")
        if f.maxlen:
            secret = secret[: f.maxlen // 2]
        if not S.encodable(secret, ctx, name):
            ctx.pop("encoding", None)
        ref_made = name in ("sun_md5_crypt", "bsdi_crypt", "ldap_bsdi_crypt", "sha256_crypt", "sha512_crypt", "dlitz_pbkdf2_sha1") and draw(st.integers(0, 2)) == 0
        settings = draw(S.settings(name, allow_bare=ref_made))
        if ref_made and f.base == "bsdi_crypt":
            settings["rounds"] = max(2, settings["rounds"] & ~1)
        if ref_made and name in ("sha256_crypt", "sha512_crypt"):
            settings["rounds"] = 5000
            settings["implicit_rounds"] = draw(st.booleans())
        return {"name": name, "settings": settings, "ctx": ctx, "secret": secret, "ref_made": ref_made}

    def body(case):
        rec.ev()
        rec.count(f"{name}:{'ref-made' if case['ref_made'] else 'produced'}")
        _nontrivial(rec, name, case["settings"], case)
        rec.sample(name, case)
        if case["ref_made"] and "implicit_rounds" in case["settings"]:
            case = dict(case, settings=dict(case["settings"]))
        o_handler(rec, case)

    hyp_campaign(rec, body, cases(), n, seed, shrink_budget=15)


def t_small_fields(rec, seed, tier):
    """exhaustive small fields: all 64 $7$ rounds chars, all 4 valid bcrypt final salt chars x idents, phpass rounds chars"""
    n = 0
    for ln in range(1, 6):
        o_handler(rec, {"name": "scrypt", "settings": {"ident": "$7$", "rounds": ln, "block_size": 1 + ln % 3, "parallelism": 1, "salt": b"abc"}, "ctx": {}, "secret": "pw", "ref_made": False}, soft=True)
        n += 1
    # $7$ packs block size and parallelism into five hash64 digits each: values that need the second and third digit
    for r, par in ((63, 1), (64, 1), (65, 2), (1, 64), (2, 127), (64, 64), (200, 3), (3, 4097), (4096, 1)):
        o_handler(rec, {"name": "scrypt", "settings": {"ident": "$7$", "rounds": 1, "block_size": r, "parallelism": par, "salt": b"abc"}, "ctx": {}, "secret": "pw", "ref_made": False}, soft=True)
        n += 1
    for last in ".Oeu":
        for ident in ("2a", "2b", "2y", "2"):
            o_handler(rec, {"name": "bcrypt", "settings": {"ident": ident, "rounds": 4, "salt": "abcdefghijklmnopqrstu" + last}, "ctx": {}, "secret": "pw", "ref_made": False}, soft=True)
            n += 1
    for r in (7, 8, 9):
        for ident in ("P", "H"):
            o_handler(rec, {"name": "phpass", "settings": {"ident": ident, "rounds": r, "salt": "abcdefgh"}, "ctx": {}, "secret": "pw", "ref_made": False}, soft=True)
            n += 1
    for sz in range(0, 17):
        for name in ("sha256_crypt", "sha512_crypt"):
            for r in (5000, 1000):
                o_handler(rec, {"name": name, "settings": {"rounds": r, "salt": "abcdefghijklmnop"[:sz]}, "ctx": {}, "secret": "pw", "ref_made": False}, soft=True)
                n += 1
    for bare in (False, True):
        for r in (0, 1, 5, 13):
            for salt in ("", "a", "abcdefgh", "./zZ09abcdef"):
                o_handler(rec, {"name": "sun_md5_crypt", "settings": {"rounds": r, "salt": salt, "bare_salt": bare}, "ctx": {}, "secret": "pw", "ref_made": True}, soft=True)
                n += 1
    for r in (1, 2, 3, 64, 4095, 4096):
        for salt in ("....", "zzzz", "ab./"):
            o_handler(rec, {"name": "bsdi_crypt", "settings": {"rounds": r, "salt": salt}, "ctx": {}, "secret": "pw", "ref_made": True}, soft=True)
            n += 1
    # libpass PHC field codec: every length 0..40 (all padding residues), ASCII and multi-byte text
    for ln in range(0, 41):
        for alpha in ("a", "xyz-_/+", "é€", "?>~", "~~?"):
            o_phc_b64(rec, {"text": (alpha * 41)[:ln]}, soft=True)
            n += 1
    import itertools

    for combo in itertools.product("a?>~z\xff", repeat=3):  # every 3-character group over symbols that reach the last two code points of the alphabet
        o_phc_b64(rec, {"text": "".join(combo)}, soft=True)
        n += 1
    # django_des_crypt in the Django 1.4+ rendering (empty salt field): renders 13 characters after 'crypt$$' and parses back to the same settings
    from passlib.hash import django_des_crypt

    style14 = type("style14", (django_des_crypt,), {"use_duplicate_salt": False})
    for salt in ("ab", "./", "zZ"):
        hs14 = style14.using(salt=salt).hash("secret")
        n += 1
        ok = hs14.startswith("crypt$$" + salt) and len(hs14) == len("crypt$$") + 13 and django_des_crypt.from_string(hs14).salt == salt and style14.from_string(hs14).to_string() == hs14 \
            and django_des_crypt.verify("secret", hs14) and not django_des_crypt.verify("Secret", hs14)
        if not ok:
            rec.fail("C07/django-des-elided-salt-render", "django_des_crypt rendered without the duplicate salt field does not parse back / verify", "handler_roundtrip",
                     {"name": "django_des_crypt", "settings": {"salt": salt}, "ctx": {}, "secret": "secret"}, hs14, None, soft=True)
    rec.ev(n)
    rec.nt_bulk(n)
    rec.sample("small-fields", {"scrypt$7$ ln": [1, 5], "bcrypt final salt chars": ".Oeu", "sha-crypt salt sizes": [0, 16]})
    rec.subrecord("small-fields", exhaustive=True, cases=n)


def _bank():
    """well-formed strings of the libpass-supported formats, made by both APIs"""
    from passlib import hash as ph

    out = []
    for rounds, implicit in ((1000, False), (5000, True), (5000, False), (1234, False)):
        for salt in ("a", "abcd", "abcdefghijklmnop", "./"):
            for nm, kind in (("sha256_crypt", "sha256"), ("sha512_crypt", "sha512")):
                s = {"salt": salt, "rounds": rounds}
                if rounds == 5000:
                    s["implicit_rounds"] = implicit
                out.append((kind, RF.ref_hash(nm, b"pw", s, {}), {"implicit": implicit and rounds == 5000, "by": "reference"}))
                if not (rounds == 5000 and not implicit):
                    out.append((kind, getattr(ph, nm).using(salt=salt, rounds=rounds).hash("pw"), {"implicit": rounds == 5000, "by": "passlib"}))
    for rounds in (1, 29000):
        for salt in (b"x", b"0123456789abcdef", b"\x00\xff" * 8):
            out.append(("pbkdf2-sha256", ph.pbkdf2_sha256.using(salt=salt, rounds=rounds if rounds < 100 else 3).hash("pw"), {"by": "passlib"}))
            out.append(("pbkdf2-sha512", ph.pbkdf2_sha512.using(salt=salt, rounds=rounds if rounds < 100 else 3).hash("pw"), {"by": "passlib"}))
    if table.available("bcrypt"):
        for ident in ("2a", "2b", "2y"):
            out.append(("bcrypt", ph.bcrypt.using(ident=ident, rounds=4, salt="abcdefghijklmnopqrstuu").hash("pw"), {"by": "passlib"}))
        out.append(("phc-bcrypt-sha256", ph.bcrypt_sha256.using(rounds=4).hash("pw"), {"by": "passlib"}))
        from libpass.hashers.bcrypt import BcryptHasher, BcryptSHA256Hasher

        out.append(("bcrypt", BcryptHasher(rounds=4).hash("pw"), {"by": "libpass"}))
        out.append(("phc-bcrypt-sha256", BcryptSHA256Hasher(rounds=4).hash("pw"), {"by": "libpass"}))
    from libpass.hashers.pbkdf2 import PBKDF2SHA256Handler, PBKDF2SHA512Handler
    from libpass.hashers.sha_crypt import SHA256Hasher, SHA512Hasher

    out.append(("sha256", SHA256Hasher(rounds=1000).hash("pw"), {"by": "libpass"}))
    out.append(("sha512", SHA512Hasher(rounds=1000).hash("pw"), {"by": "libpass"}))
    out.append(("pbkdf2-sha256", PBKDF2SHA256Handler(rounds=2).hash("pw"), {"by": "libpass"}))
    out.append(("pbkdf2-sha512", PBKDF2SHA512Handler(rounds=2).hash("pw"), {"by": "libpass"}))
    out.append(("phc-argon2", "$argon2id$v=19$m=65536,t=3,p=4$c29tZXNhbHRzb21lc2FsdA$RdescudvJCsgt3ub+b+dWRWJTmaaJObG", {"by": "spec example"}))
    out.append(("phc-argon2", "$argon2i$v=19$m=16,t=2,p=1$MTIzNDU2Nzg$7N8CxA0Uf6YxCRlj7dEIXw", {"by": "docs"}))
    return out


def t_inspect_bank(rec, seed, tier):
    for kind, text, meta in _bank():
        rec.ev()
        if meta.get("implicit") or meta["by"] != "libpass":
            rec.nt("bank", kind, text)
        rec.count(f"inspect-bank:{kind}:{meta['by']}")
        rec.sample(f"inspect:{kind}", {"kind": kind, "text": text, **meta})
        o_inspect(rec, {"kind": kind, "text": text}, soft=True)


def t_inspect_candidates(rec, seed, tier):
    a = "$argon2id$v=19$m=8,t=1,p=4$c29tZXNhbHQ$AAAAAAAAAAAAAAAA"
    b = "$bcrypt-sha256$v=2,t=2b,r=12$n79VH.0Q2TMWmt3Oqt9uku$Kq4Noyk3094Y2QlB8NdRT8SvGiI4ft2"
    cands = [
        ("phc-argon2", a, None), ("phc-argon2", a.replace("$v=19", ""), "version field missing"), ("phc-argon2", a.replace("v=19", "v=16"), "other version"),
        ("phc-argon2", a.replace("argon2id", "argon2x"), "unknown id"), ("phc-argon2", b, "other record type"),
        ("phc-bcrypt-sha256", b, None), ("phc-bcrypt-sha256", b.replace("$bcrypt-sha256$", "$bcrypt-sha256$v=2$"), "unexpected version field"),
        ("phc-bcrypt-sha256", a, "other record type"), ("phc-both", a, None), ("phc-both", b, None), ("phc-both-rev", a, None), ("phc-both-rev", b, None),
        ("phc-both", a.replace("$v=19", ""), "version field missing"), ("phc-both-rev", a.replace("$v=19", ""), "version field missing"),
        ("phc-both", b.replace("$bcrypt-sha256$", "$bcrypt-sha256$v=19$"), "unexpected version field"),
    ]
    for kind, text, why in cands:
        rec.ev()
        rec.nt("cand", kind, text)
        rec.sample("inspect-candidate", {"kind": kind, "text": text, "must_reject": why})
        o_inspect_candidate(rec, {"kind": kind, "text": text, "must_reject": why}, soft=True)


def t_inspect_hyp(rec, seed, tier):
    from hypothesis import strategies as st

    n = 1500 if tier == "quick" else 20000
    h64 = st.sampled_from(table.H64)
    b64url = st.sampled_from("ABCDEFGHIJKLMNOPQRSTUVWXYZabcdefghijklmnopqrstuvwxyz0123456789+/.-")
    ab64 = st.sampled_from("ABCDEFGHIJKLMNOPQRSTUVWXYZabcdefghijklmnopqrstuvwxyz0123456789./")

    def txt(alpha, lo, hi):
        return st.text(alpha, min_size=lo, max_size=hi)

    @st.composite
    def cases(draw):
        kind = draw(st.sampled_from(["sha256", "sha512", "pbkdf2-sha256", "pbkdf2-sha512", "bcrypt", "phc-bcrypt-sha256", "phc-argon2"]))
        if kind in ("sha256", "sha512"):
            size = 43 if kind == "sha256" else 86
            fields = {"rounds": draw(st.one_of(st.none(), st.integers(1000, 999999999), st.sampled_from([1000, 5000, 535000]))), "salt": draw(txt(h64, 1, 16)), "hash": draw(txt(h64, size, size))}
        elif kind.startswith("pbkdf2"):
            fields = {"rounds": draw(st.integers(1, 2**32 - 1)), "salt": draw(txt(ab64, 1, 40)), "hash": draw(txt(ab64, 1, 90))}
        elif kind == "bcrypt":
            fields = {"prefix": draw(st.sampled_from(["2a", "2b", "2y"])), "rounds": draw(st.integers(4, 31)), "salt": draw(txt(st.sampled_from(table.BC64), 22, 22)), "hash": draw(txt(st.sampled_from(table.BC64), 31, 31))}
        elif kind == "phc-bcrypt-sha256":
            fields = {"id": "bcrypt-sha256", "version_": 2, "type": draw(st.sampled_from(["2a", "2b"])), "rounds": draw(st.integers(4, 31)),
                      "salt": draw(txt(st.sampled_from(table.BC64), 22, 22)), "hash": draw(txt(st.sampled_from(table.BC64), 31, 31))}
        else:
            fields = {"id": draw(st.sampled_from(["argon2id", "argon2i", "argon2d"])), "memory_cost": draw(st.integers(8, 2**32 - 1)), "time_cost": draw(st.integers(1, 2**32 - 1)),
                      "parallelism_cost": draw(st.integers(1, 255)), "salt": draw(txt(b64url, 11, 64)), "hash": draw(txt(b64url, 16, 86))}
        return {"kind": kind, "fields": fields}

    def body(case):
        rec.ev()
        rec.count(f"inspect-fields:{case['kind']}")
        rec.nt("fields", case["kind"], sorted(case["fields"].items(), key=str))
        rec.sample(f"inspect-fields:{case['kind']}", case)
        o_inspect(rec, case)

    hyp_campaign(rec, body, cases(), n, seed)


def tasks(tier):
    ts = [{"name": f"h-{name}", "fn": "t_handler", "kw": {"name": name}} for name in sorted(table.T)]
    ts += [{"name": "small-fields", "fn": "t_small_fields"}, {"name": "inspect-bank", "fn": "t_inspect_bank"}, {"name": "inspect-hyp", "fn": "t_inspect_hyp"},
           {"name": "inspect-candidates", "fn": "t_inspect_candidates"}]
    return ts
