"""C05 -- size limits: no silent truncation when forbidden, no oversized passwords."""

from __future__ import annotations

from ..common import Recorder, call, hyp_campaign, oracle
from ..gens import strategies as S
from ..gens import table
from ..refs import formats as RF
from .c02 import fixed_ctx, fixed_settings

PROPERTY = "C05"
LEVEL = "exploration"
RULE = (
    "Truncating hashers (des_crypt, crypt16, bcrypt, django_bcrypt, django_des_crypt, lmhash, cisco_pix, cisco_asa and the ldap_ "
    "wrappers) x truncate_error on/off (via using(), via CryptContext(truncate_error=..), bool or string) x passwords whose BYTE "
    "length is limit-2..limit+6 built from 1-,2-,3-,4-byte characters placed so that a multi-byte character straddles, ends at or "
    "starts at the limit, as text and as bytes, lmhash under cp437/utf-8/latin-1 (enumerated) plus Hypothesis cases; all hashers x "
    "ASCII lengths 4095/4096/4097 through hash, verify and CryptContext.hash/verify/verify_and_update; NUL at every position of a "
    "0..12-byte password for the crypt()-compatible formats on every backend. Oracle: truncate_error on => PasswordTruncateError "
    "(cisco: PasswordSizeError) or the result depends on the whole password (no extension / edit beyond the limit verifies); off => "
    "verify(q, hash(p)) iff q and p have the same documented key (first limit-many bytes); no limit => editing the last byte "
    "flips verify; >4096 => PasswordSizeError everywhere, ==4096 accepted; NUL => ValueError, never 'hash of the prefix'. "
    "Non-trivial = a multi-byte character at/after the limit, a 4097 case, or a NUL not in last position."
)
ASSUMPTIONS = [
    "the 4096 maximum is compared in the library's own unit (len(secret)); boundary secrets there are ASCII so bytes == characters",
    "truncation keys are the documented ones of C01 (first 8/16/72/14 bytes after the format's transformation)",
]
LEVEL_TEXT = (
    "Enumeration of the boundary region (every byte length around each limit x every character width x every alignment of the "
    "straddling character x text/bytes x policy on/off x the three ways of setting the policy) plus seeded Hypothesis cases, the "
    "library-wide size boundary for every registered hasher and for CryptContext, and NUL at every position on every backend."
)
LEVEL_NOTE = "Trusted: the documented truncation sizes and key functions (gens/table.py), Hypothesis."
TECHNIQUE = "boundary enumeration + Hypothesis with metamorphic oracle (extension/edit beyond the limit) and exception-class oracle"
#: thorough tier: seed-dependent tasks are repeated under this many derived seeds (run.py); the listed task functions enumerate fixed domains
THOROUGH_REPS = 8
DETERMINISTIC_FNS = ('t_boundary', 't_maxsize', 't_nolimit')

TRUNC = ["des_crypt", "crypt16", "bcrypt", "django_bcrypt", "ldap_des_crypt", "ldap_bcrypt", "django_des_crypt", "lmhash", "cisco_pix", "cisco_asa"]
HAS_POLICY = [n for n in TRUNC if not n.startswith("cisco")]
WIDTH_CHARS = {1: "a", 2: "é", 3: "€", 4: "\U0001F600"}
#: characters whose upper-casing changes the encoded length (lmhash digests the upper-cased bytes): ß -> SS, ɐ -> Ɐ (3 bytes in utf-8)
UPPER_GROWS = {"ß": 2, "ɐ": 3, "ŉ": 3}


def _enc(name, ctx):
    return ctx.get("encoding") or ("cp437" if name == "lmhash" else "utf-8")


def blen(p, name, ctx):
    if isinstance(p, bytes):
        return len(p)
    if name == "lmhash":
        return len(p.upper().encode(_enc(name, ctx)))
    return len(p.encode(_enc(name, ctx)))


def make_hasher(name, policy, how, i=0):
    """-> (callable hash(p, **ctx), verify handler)"""
    h = table.handler(name)
    s = fixed_settings(name, i)
    s.pop("salt", None)
    if "bcrypt" in name:
        s["rounds"] = 4
    if how == "using":
        kw = dict(s)
        if policy is not None and name in HAS_POLICY:
            kw["truncate_error"] = policy
        c = h.using(**kw) if kw else h
        return c.hash, h
    from passlib.context import CryptContext

    opts = {f"{name}__{k}": v for k, v in s.items() if k in ("rounds", "ident")}
    if how == "context-scheme-over-global" and policy is not None and name in HAS_POLICY:
        # the per-scheme option wins over the context-wide setting (documented option inheritance: all < scheme < category)
        on = str(policy).lower() in ("true", "1", "yes", "y", "t", "on")
        opts["truncate_error"] = not on
        opts[f"{name}__truncate_error"] = policy
    elif how == "context-category" and policy is not None and name in HAS_POLICY:
        on = str(policy).lower() in ("true", "1", "yes", "y", "t", "on")
        opts[f"{name}__truncate_error"] = not on
        opts[f"admin__{name}__truncate_error"] = policy
        ctx = CryptContext(schemes=[name], **opts)
        return (lambda p, **kw: ctx.hash(p, category="admin", **kw)), h
    elif policy is not None:
        opts["truncate_error"] = policy
    ctx = CryptContext(schemes=[name], **opts)
    return (lambda p, **kw: ctx.hash(p, **kw)), h


@oracle(PROPERTY, "truncate")
def o_truncate(rec: Recorder, case, soft=False):
    """case: {name, policy(True/False/None/'true'..), how, secret, ctx}"""
    from passlib import exc

    name, policy, how, p, ctx = case["name"], case["policy"], case["how"], case["secret"], case.get("ctx", {})
    f = table.T[name]
    limit = f.trunc
    on = str(policy).lower() in ("true", "1", "yes", "y", "t", "on") if policy is not None else name.startswith("cisco")
    hashfn, h = make_hasher(name, policy, how, case.get("i", 0))
    n = blen(p, name, ctx)
    st, r = call(hashfn, p, **ctx)
    ns = RF.norm_settings(name, {"ident": h.default_ident} if getattr(h, "default_ident", None) and "bcrypt" in name else {})
    key = lambda x: f.key(x, ns, ctx)  # noqa: E731
    if st == "err":
        want = exc.PasswordSizeError if name.startswith("cisco") else exc.PasswordTruncateError
        if isinstance(r, want) and on and n > limit:
            rec.count("truncate:refused")
            return
        if isinstance(r, (exc.PasswordTruncateError, exc.PasswordSizeError)):
            rec.fail(f"C05/refused-within-limit/{name}", f"{name}: password of {n} bytes (limit {limit}, policy {policy!r}) refused", "truncate", case, repr(r), "accepted", soft=soft)
            return
        raise r
    hs = r
    if h.verify(p, hs, **ctx) is not True:
        rec.fail(f"C05/own-verify/{name}", f"{name}: hash of a boundary-length password does not verify", "truncate", case, hs, True, soft=soft)
        return
    # neighbours: extension, edit beyond the limit, edit of the last byte inside the limit
    unit = "Z" if isinstance(p, str) else b"Z"
    ext = [p + unit, p + unit * 9]
    beyond = []
    if n > limit:
        beyond.append(p[:-1] + ("Q" if isinstance(p, str) else b"Q") if len(p) else p)
    for q in ext + beyond:
        if blen(q, name, ctx) > (f.maxlen or 10**9) and name.startswith("cisco"):
            expect = False
        else:
            try:
                expect = key(q) == key(p)
            except (UnicodeError, ValueError):
                continue
        st, v = call(h.verify, q, hs, **ctx)
        if st == "err":
            raise v
        silent = on and n > limit  # policy forbade truncation, hash() succeeded anyway: the whole password must matter
        if silent:
            expect = False
        if v is not expect:
            if silent:
                rec.fail(f"C05/silent-truncation/{name}/{how}", f"{name} with truncate_error={policy!r} (set via {how}) hashed a {n}-byte password (limit {limit}) and a longer/edited password verifies",
                         "truncate", case, f"verify({q!r})={v}", "PasswordTruncateError or whole password used", soft=soft)
            else:
                rec.fail(f"C05/wrong-prefix/{name}", f"{name}: with truncation allowed verify must depend on exactly the first {limit} bytes", "truncate", case, f"verify({q!r})={v}", expect, soft=soft)
            return
    # an edit inside the limit must always matter
    if len(p):
        if isinstance(p, str):
            q = ("Q" if p[0] != "Q" else "R") + p[1:]
        else:
            q = bytes([p[0] ^ 0x01 or 2]) + p[1:]
        try:
            same = key(q) == key(p)
        except (UnicodeError, ValueError):
            same = True
        if not same and h.verify(q, hs, **ctx) is not False:
            rec.fail(f"C05/inside-edit-ignored/{name}", f"{name}: edit inside the limit does not change the result", "truncate", case, True, False, soft=soft)


@oracle(PROPERTY, "nolimit")
def o_nolimit(rec, case, soft=False):
    """hashers without a limit depend on every byte: edit of the last byte flips verify"""
    name, p, i = case["name"], case["secret"], case.get("i", 0)
    h = table.handler(name)
    f = table.T[name]
    s = fixed_settings(name, i)
    s.pop("salt", None)
    ctx = fixed_ctx(name, i)
    hs = (h.using(**s) if s else h).hash(p, **ctx)
    if h.verify(p, hs, **ctx) is not True:
        rec.fail(f"C05/own-verify/{name}", f"{name}: long password does not verify", "nolimit", case, hs, True, soft=soft)
        return
    last = p[-1]
    q = p[:-1] + (("y" if last != "y" else "z") if isinstance(p, str) else bytes([last ^ 1 or 3]))
    qs = [q, p + (("x") if isinstance(p, str) else b"x"), p[:-1]]
    ns = RF.norm_settings(name, s)
    for q in qs:
        try:
            if f.key(q, ns, ctx) == f.key(p, ns, ctx):
                continue
        except (UnicodeError, ValueError):
            continue
        st, v = call(h.verify, q, hs, **ctx)
        if st == "err":
            if isinstance(v, ValueError):
                continue
            raise v
        if v is not False:
            rec.fail(f"C05/tail-ignored/{name}", f"{name} has no documented limit but ignores the tail of a {len(p)}-unit password", "nolimit", case, f"verify({len(q)} units)={v}", False, soft=soft)
            return


@oracle(PROPERTY, "maxsize")
def o_maxsize(rec, case, soft=False):
    """case: {name, n, as_bytes, via}: via in hash|verify|ctx.hash|ctx.verify|ctx.verify_and_update"""
    from passlib import exc
    from passlib.context import CryptContext

    name, n, via = case["name"], case["n"], case["via"]
    p = (b"a" if case.get("as_bytes") else "a") * n
    h = table.handler(name)
    f = table.T[name]
    s = fixed_settings(name, 1)
    s.pop("salt", None)
    ctx = fixed_ctx(name, 1)
    c = h.using(**s) if s else h
    if via == "hash":
        st, r = call(c.hash, p, **ctx)
    elif via == "verify":
        good = c.hash("pw" if f.secret != "ldap_plain" else "pw", **ctx)
        st, r = call(h.verify, p, good, **ctx)
    else:
        cc = CryptContext(schemes=[name], **{f"{name}__{k}": v for k, v in s.items() if k in ("rounds", "ident")})
        if via == "ctx.hash":
            st, r = call(cc.hash, p, **ctx)
        else:
            good = c.hash("pw", **ctx)
            st, r = call(getattr(cc, via[4:]), p, good, **ctx)
    own_limit = f.maxlen is not None and n > f.maxlen
    if n > 4096:
        if not (st == "err" and isinstance(r, exc.PasswordSizeError)):
            rec.fail(f"C05/oversize-accepted/{name}/{via}", f"{name}: {n}-character password not refused with PasswordSizeError via {via}", "maxsize", case, repr(r)[:80], "PasswordSizeError", soft=soft)
    else:
        if st == "err":
            if own_limit and isinstance(r, exc.PasswordSizeError) and "hash" in via:
                return
            rec.fail(f"C05/maxsize-refused/{name}/{via}", f"{name}: {n}-character password (the maximum) refused via {via}", "maxsize", case, repr(r)[:80], "accepted", soft=soft)
        elif "verify" in via:
            ok = r[0] if isinstance(r, tuple) else r
            if ok is not False:
                rec.fail(f"C05/maxsize-verify/{name}/{via}", f"{name}: wrong 4096-character password verifies", "maxsize", case, r, False, soft=soft)


@oracle(PROPERTY, "nul")
def o_nul(rec, case, soft=False):
    """case: {name, backend, secret(bytes with NUL), as_text}"""
    name, p = case["name"], case["secret"]
    h = table.handler(name)
    if case.get("backend"):
        h.set_backend(case["backend"])
    s = fixed_settings(name, 2)
    if "bcrypt" in name:
        s["rounds"] = 4
    c = h.using(**s) if s else h
    arg = p.decode("latin-1") if case.get("as_text") else p
    st, r = call(c.hash, arg)
    prefix = p[: p.index(b"\0")]
    if st == "err":
        if not isinstance(r, ValueError):
            raise r
        rec.count("nul:refused")
    else:
        hp = c.hash(prefix.decode("latin-1") if case.get("as_text") else prefix)
        if r == hp:
            rec.fail(f"C05/nul-truncates/{name}", f"{name}: password containing NUL hashes like the prefix before the NUL", "nul", case, r, "ValueError", soft=soft)
            return
        rec.fail(f"C05/nul-accepted/{name}", f"{name}: crypt()-compatible format accepted a NUL byte", "nul", case, r, "ValueError", soft=soft)
        return
    hp = c.hash(prefix.decode("latin-1") if case.get("as_text") else prefix)
    st, v = call(h.verify, arg, hp)
    if st == "ok" and v is True:
        rec.fail(f"C05/nul-verify-prefix/{name}", f"{name}: verify() treats a NUL as the end of the password", "nul", case, True, "ValueError/False", soft=soft)
    elif st == "err" and not isinstance(v, ValueError):
        raise v


ORACLES = {"truncate": o_truncate, "nolimit": o_nolimit, "maxsize": o_maxsize, "nul": o_nul}


# ---- tasks ----------------------------------------------------------------------------------------
def boundary_passwords(limit, span=(-2, 6)):
    """text passwords with byte length limit+d built so that a w-byte character straddles / ends at / starts at the limit"""
    out = []
    for w, ch in WIDTH_CHARS.items():
        for start in range(max(0, limit - w - 1), limit + 2):  # byte offset where the wide char starts
            for tail in (0, 1, 3):
                p = "a" * start + ch + "b" * tail
                n = len(p.encode("utf-8"))
                if limit + span[0] <= n <= limit + span[1]:
                    out.append((w, start, p))
        # all-wide passwords (character count below the limit, byte count above)
        for cnt in range(max(1, limit // w - 1), limit // w + 3):
            out.append((w, -1, ch * cnt))
    if limit == 14:  # lmhash: upper-casing may lengthen the password
        for ch, w in UPPER_GROWS.items():
            for cnt in range(1, limit + 2):
                for pad in (0, 1, limit - cnt if limit > cnt else 0):
                    out.append((w, -2, "a" * pad + ch * cnt))
    return out


def t_boundary(rec, seed, tier, name):
    f = table.T[name]
    if not table.available(name):
        rec.count(f"skipped_unavailable:{name}")
        return
    limit = f.trunc
    n = 0
    encs = [None, "utf-8", "latin-1"] if name == "lmhash" else [None]
    policies = [True, False, None, "true", "false"] if name in HAS_POLICY else [None]
    for enc in encs:
        ctx = {"encoding": enc} if enc else {}
        if "user" in f.ctx:
            ctx["user"] = "u1"
        for w, start, p in boundary_passwords(limit):
            if name == "lmhash":
                try:
                    p.upper().encode(_enc(name, ctx))
                except UnicodeEncodeError:
                    continue
            for pol in policies:
                hows = ["using", "context", "context-scheme-over-global", "context-category"] if pol is not None or name.startswith("cisco") else ["using"]
                if tier == "quick" and "bcrypt" in name and (n % 3):
                    hows = hows[:1]
                for how in hows:
                    forms = [p]
                    if name != "lmhash" and (start % 2 == 0 or tier == "thorough"):
                        forms.append(p.encode("utf-8"))
                    for form in forms:
                        case = {"name": name, "policy": pol, "how": how, "secret": form, "ctx": ctx, "i": n}
                        o_truncate(rec, case, soft=True)
                        n += 1
                        bl = blen(form, name, ctx)
                        if w > 1 and bl >= limit:
                            rec.nt(name, pol, how, repr(form), enc)
                        rec.count(f"boundary:{name}:{'on' if str(pol).lower() == 'true' else 'off'}:{'over' if bl > limit else 'within'}")
                        if w > 1 and n % 37 == 0:
                            rec.sample(f"boundary:{name}", case)
    rec.ev(n)
    rec.subrecord(f"boundary:{name}", enumerated=n)


def t_hyp_truncate(rec, seed, tier, name):
    from hypothesis import strategies as st

    f = table.T[name]
    if not table.available(name):
        return
    n = {"quick": 60, "thorough": 600}[tier]
    if "bcrypt" in name:
        n //= 3

    @st.composite
    def cases(draw):
        ctx = draw(S.contexts(name))
        p = draw(S.secrets(f, min_len=max(0, f.trunc - 3)))
        if isinstance(p, (str,)) and not S.encodable(p, ctx, name):
            ctx.pop("encoding", None)
            if not S.encodable(p, ctx, name):
                p = "".join(c for c in p if ord(c) < 128)
        if isinstance(p, bytes) and name not in ("lmhash",) and draw(st.booleans()):
            try:
                p = p.decode("utf-8")
            except UnicodeDecodeError:
                pass
        pol = draw(st.sampled_from([True, False, None, "true", "false"] if name in HAS_POLICY else [None]))
        return {"name": name, "policy": pol, "how": draw(st.sampled_from(["using", "context", "context-scheme-over-global", "context-category"])) if pol is not None else "using", "secret": p, "ctx": ctx, "i": draw(st.integers(0, 7))}

    def body(case):
        rec.ev()
        bl = blen(case["secret"], name, case["ctx"])
        if bl >= f.trunc and (isinstance(case["secret"], str) and not case["secret"].isascii()):
            rec.nt("hyp", name, repr(case["secret"]), case["policy"], case["how"])
        rec.count(f"hyp-truncate:{name}:{'over' if bl > f.trunc else 'within'}")
        rec.sample(f"hyp-truncate:{name}", case)
        o_truncate(rec, case)

    hyp_campaign(rec, body, cases(), n, seed, shrink_budget=15)


def t_nolimit(rec, seed, tier, names):
    n = 0
    lens = [73, 130, 257] if tier == "quick" else [17, 33, 73, 97, 130, 257, 1000, 4096]
    for name in names:
        f = table.T[name]
        if f.trunc or f.disabled or not table.available(name) or f.maxlen:
            continue
        for ln in lens:
            if ln > 300 and name in ("bigcrypt", "bsdi_crypt", "ldap_bsdi_crypt", "sun_md5_crypt", "scram"):
                continue
            for kind in ("text", "bytes"):
                if kind == "bytes" and f.secret not in ("bytes", "nonul"):
                    continue
                p = ("k" * (ln - 1) + "e") if kind == "text" else bytes((0x61 + i % 20) for i in range(ln))
                o_nolimit(rec, {"name": name, "secret": p, "i": ln}, soft=True)
                rec.nt("nolimit", name, ln, kind)
                n += 1
        rec.sample("nolimit", {"name": name, "lengths": lens})
    rec.ev(n)


def t_maxsize(rec, seed, tier, names):
    n = 0
    for name in names:
        f = table.T[name]
        if not table.available(name):
            rec.count(f"skipped_unavailable:{name}")
            continue
        for size in (4095, 4096, 4097):
            for as_bytes in (False, True):
                for via in ("hash", "verify", "ctx.hash", "ctx.verify", "ctx.verify_and_update"):
                    if f.disabled and "verify" in via and size <= 4096:
                        pass
                    if name == "ldap_plaintext" and via.startswith("ctx") is False and False:
                        continue
                    if size <= 4096 and tier == "quick" and (as_bytes or via.startswith("ctx.verify")):
                        continue
                    if f.secret in ("text", "lm", "sasl", "text_enc", "ldap_plain") and as_bytes and False:
                        continue
                    case = {"name": name, "n": size, "as_bytes": as_bytes, "via": via}
                    o_maxsize(rec, case, soft=True)
                    n += 1
                    if size == 4097:
                        rec.nt("maxsize", name, as_bytes, via)
        rec.sample("maxsize", {"name": name, "sizes": [4095, 4096, 4097]})
    rec.ev(n)
    rec.subrecord("maxsize", hashers=len(names))


def t_nul(rec, seed, tier, name, backend):
    h = table.handler(name)
    if not table.available(name):
        return
    if backend and backend not in h.backends:
        return
    if backend:
        from .c03 import host_supports

        if not host_supports(name, backend):
            rec.count(f"skipped_backend_absent:{name}:{backend}")
            return
    n = 0
    top = 13 if "bcrypt" not in name else (5 if tier == "quick" else 9)
    for ln in range(1, top):
        for pos in range(ln):
            base = bytearray(0x61 + (i * 5) % 26 for i in range(ln))
            base[pos] = 0
            for as_text in (False, True):
                if "bcrypt" in name and as_text and tier == "quick":
                    continue
                o_nul(rec, {"name": name, "backend": backend, "secret": bytes(base), "as_text": as_text}, soft=True)
                n += 1
                if pos < ln - 1:
                    rec.nt("nul", name, backend, ln, pos, as_text)
    # NUL beyond the truncation limit of the format (it would be cut off -- and is refused all the same) and deep inside long passwords
    lim = table.T[name].trunc or 8
    for pos in sorted({lim - 1, lim, lim + 1, lim + 28, 200}):
        base = bytearray(0x61 + (i * 5) % 26 for i in range(pos + 4))
        base[pos] = 0
        o_nul(rec, {"name": name, "backend": backend, "secret": bytes(base), "as_text": False}, soft=True)
        rec.nt("nul", name, backend, len(base), pos, False)
        n += 1
    rec.ev(n)
    rec.count(f"nul:{name}:{backend}", n)
    rec.sample("nul", {"name": name, "backend": backend, "lengths": [1, top - 1], "positions": "all"})
    rec.subrecord(f"nul:{name}:{backend}", exhaustive_positions=True, upto=top - 1)


def tasks(tier):
    ts = []
    for name in TRUNC:
        ts.append({"name": f"boundary-{name}", "fn": "t_boundary", "kw": {"name": name}})
        ts.append({"name": f"hyp-{name}", "fn": "t_hyp_truncate", "kw": {"name": name}})
    names = sorted(table.T)
    for i in range(0, len(names), 6):
        ts.append({"name": f"maxsize-{i:02d}", "fn": "t_maxsize", "kw": {"names": names[i : i + 6]}})
        ts.append({"name": f"nolimit-{i:02d}", "fn": "t_nolimit", "kw": {"names": names[i : i + 6]}})
    from passlib.utils import unix_crypt_schemes

    nul_class = list(unix_crypt_schemes) + ["ldap_" + n for n in unix_crypt_schemes if "ldap_" + n in table.T]
    for name in nul_class:
        backends = {"md5_crypt", "sha1_crypt", "sha256_crypt", "sha512_crypt", "des_crypt", "bsdi_crypt"}
        base = name[5:] if name.startswith("ldap_") else name
        if base in backends:
            for b in ("os_crypt", "builtin"):
                ts.append({"name": f"nul-{name}-{b}", "fn": "t_nul", "kw": {"name": name, "backend": b}})
        elif "bcrypt" in name:
            for b in ("bcrypt", "os_crypt") + (("builtin",) if tier == "thorough" else ()):
                ts.append({"name": f"nul-{name}-{b}", "fn": "t_nul", "kw": {"name": name, "backend": b}, "env": {"PASSLIB_BUILTIN_BCRYPT": "1"}})
        else:
            ts.append({"name": f"nul-{name}", "fn": "t_nul", "kw": {"name": name, "backend": None}})
    return ts
