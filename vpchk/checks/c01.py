"""C01 -- a hash verifies exactly the password it was made from."""

from __future__ import annotations

from ..common import Recorder, call, hyp_campaign, oracle
from ..gens import strategies as S
from ..gens import table
from ..refs import formats as RF

PROPERTY = "C01"
LEVEL = "exploration"
RULE = (
    "Hypothesis cases per hasher (all registry names + the 6 libpass hashers): settings from the format table via using() "
    "(rounds, salt or salt_size, ident, variant, version, algs, block_size, parallelism, marker), context keywords, a password from "
    "the boundary-heavy length/content distribution restricted to what the format documents as admissible, and 4-6 near-miss "
    "passwords (byte/char substitution, deletion, insertion, prefix, extension, case flip, high-bit flip, blank insertion, swap). "
    "Oracle: hash() returns ASCII text the hasher identifies; verify(p) is True for text and bytes forms; for every near miss "
    "verify(p') == (key(p') == key(p)) where key is the format's documented equivalence (both directions); disabled hashers verify "
    "False for everything. Non-trivial = non-empty password with at least one near miss of a different key; distinct by (hasher, "
    "settings class, len(p), content class)."
)
ASSUMPTIONS = [
    "the canonical-key functions in vpchk/gens/table.py transcribe the documented equivalences of each format",
    "pairs whose keys coincide only through NUL padding vs. a trailing 0x80 byte (DES family) are counted as equivalence_unspecified, not judged",
    "argon2 hashers have no backend on this host (skipped_unavailable)",
]
LEVEL_TEXT = (
    "Seeded generated-input search over hasher x settings x context x password x near-miss password with an explicit two-sided "
    "oracle built from each format's documented password equivalence; every registered hasher is covered (table completeness is "
    "asserted at run time), default backends in the quick tier, builtin backends in the thorough tier."
)
LEVEL_NOTE = "Trusted: the per-format key functions (documented equivalences), Hypothesis. No reference digests are needed here."
TECHNIQUE = "Hypothesis property-based testing with metamorphic near-miss oracle over every registered hasher"
#: thorough tier: seed-dependent tasks are repeated under this many derived seeds (run.py); the listed task functions enumerate fixed domains
THOROUGH_REPS = 2
DETERMINISTIC_FNS = ()


def selftest():
    from ..common import HarnessError

    missing, extra = table.check_complete()
    if missing or extra:
        raise HarnessError(f"format table out of date: missing={missing} extra={extra}")


def _other_form(secret, ctx):
    """the equivalent encoded-bytes / text form of a password, or None"""
    enc = ctx.get("encoding") or "utf-8"
    if isinstance(secret, str):
        try:
            return secret.encode(enc)
        except UnicodeEncodeError:
            return None
    try:
        return secret.decode(enc)
    except UnicodeDecodeError:
        return None


def _within_max(x):
    """the other form is an admissible password too (the library-wide maximum is 4096 units of whatever is passed in)"""
    return x is not None and len(x) <= 4096


def _padded_only(f, p, q, ns, ctx):
    """True when p and q have equal documented keys only because one ends where the other has bytes that
    mask to zero (0x80) -- docs do not say whether an absent byte equals a 0x80 byte"""
    if f.trunc in (8, 16) and f.base in ("des_crypt", "crypt16", "django_des_crypt") or f.name in ("des_crypt", "crypt16", "django_des_crypt", "ldap_des_crypt"):
        bp = p.encode() if isinstance(p, str) else p
        bq = q.encode() if isinstance(q, str) else q
        n = f.trunc
        return len(bp[:n]) != len(bq[:n])
    if f.key is table.key_des_blocks:
        bp = p.encode() if isinstance(p, str) else p
        bq = q.encode() if isinstance(q, str) else q
        return len(bp) != len(bq)
    return False


@oracle(PROPERTY, "roundtrip")
def o_roundtrip(rec: Recorder, case, soft=False):
    name, settings, ctx, secret, misses = case["name"], case["settings"], case["ctx"], case["secret"], case.get("misses", [])
    f = table.T[name]
    h = table.handler(name)
    custom = h.using(**settings) if settings else h
    hs = custom.hash(secret, **ctx)
    if not isinstance(hs, str):
        rec.fail(f"C01/not-str/{name}", f"{name}.hash() did not return str", "roundtrip", case, type(hs).__name__, "str", soft=soft)
        return
    secret_ascii = (secret if isinstance(secret, str) else secret.decode("latin-1")).isascii()
    if not hs.isascii() and (not f.plaintext or secret_ascii):
        rec.fail(f"C01/not-ascii/{name}", f"{name}.hash() returned non-ASCII text", "roundtrip", case, hs, None, soft=soft)
        return
    if f.disabled:
        for x in (secret, "", hs, "x"):
            if custom.verify(x, hs) is not False:
                rec.fail(f"C01/disabled-verifies/{name}", f"{name}: disabled hasher verified a password", "roundtrip", case, x, False, soft=soft)
        if not h.identify(hs):
            rec.fail(f"C01/identify/{name}", f"{name} does not identify its own hash", "roundtrip", case, hs, True, soft=soft)
        return
    if h.identify(hs) is not True:
        rec.fail(f"C01/identify/{name}", f"{name} does not identify its own hash", "roundtrip", case, hs, True, soft=soft)
        return
    # the bytes form of a hash is its ASCII encoding.  The plaintext family stores the password itself, whose
    # bytes form depends on the encoding in use: only the unambiguous ASCII / default-encoding case is judged here
    if hs.isascii() and not (f.plaintext and ctx.get("encoding")):
        hb = hs.encode("ascii")
        if h.identify(hb) is not True:
            rec.fail(f"C01/identify-bytes/{name}", f"{name} does not identify its own hash given as bytes", "roundtrip", case, hb, True, soft=soft)
        if custom.verify(secret, hb, **ctx) is not True:
            rec.fail(f"C01/verify-own-bytes-hash/{name}", f"{name}: verify(p, hash as bytes) is not True", "roundtrip", case, hs, True, soft=soft)
    if h.verify(secret, hs, **ctx) is not True:
        rec.fail(f"C01/verify-own/{name}", f"{name}: verify(p, hash(p)) is not True", "roundtrip", case, hs, True, soft=soft)
        return
    other = _other_form(secret, ctx)
    if not _within_max(other):
        other = None
    if other is not None and name != "lmhash":
        if h.verify(other, hs, **ctx) is not True:
            rec.fail(f"C01/text-bytes/{name}", f"{name}: password as text and as encoded bytes verify differently", "roundtrip", case, repr(other), True, soft=soft)
    if name == "lmhash" and not ctx.get("encoding"):
        # letter case is folded whichever way the password arrives (text, or bytes in the OEM code page -- ASCII here)
        for a, b in (("secret1", b"secret1"), ("MiXeD", b"mixed"), (b"lower", "LOWER")):
            if h.verify(b, h.hash(a)) is not True:
                rec.fail("C01/text-bytes/lmhash", "lmhash: the same ASCII password as text and as bytes (any letter case) verify differently", "roundtrip", case, repr((a, b)), True, soft=soft)
                return
    if other is not None and name == "lmhash" and isinstance(other, bytes):
        # lmhash takes bytes as already OEM-encoded (upper-casing of ASCII only): equivalent for ASCII text
        if secret.isascii() and h.verify(other, hs, **ctx) is not True:
            rec.fail(f"C01/text-bytes/{name}", "lmhash: ASCII password as text and bytes verify differently", "roundtrip", case, repr(other), True, soft=soft)
    # the documented legacy call form hash(secret, **settings, **context): settings and context keywords both reach the hasher
    legacy = dict(settings) if settings and "salt" in settings else ({"truncate_error": False} if "truncate_error" in getattr(h, "setting_kwds", ()) and not settings else None)
    if ctx and legacy is not None and (f.maxlen is None or len(secret.encode("utf-8", "surrogatepass") if isinstance(secret, str) else secret) <= (f.trunc or 10**9)):
        st, hs2 = call(h.hash, secret, **legacy, **ctx)
        if st == "err" or (hs2 != hs and not f.salt is None and "salt" in legacy) or h.verify(secret, hs2, **ctx) is not True or (not f.salt and hs2 != hs):
            rec.fail(f"C01/hash-settings-and-context/{name}", f"{name}.hash(secret, **settings, **context) differs from using(**settings).hash(secret, **context)", "roundtrip", case, repr(hs2)[:120], hs, soft=soft)
            return
    # context values (user, realm) are text or the equivalent encoded bytes, like the password itself
    for k in ("user", "realm"):
        if isinstance(ctx.get(k), str):
            try:
                bctx = dict(ctx, **{k: ctx[k].encode(ctx.get("encoding") or "utf-8")})
            except UnicodeEncodeError:
                continue
            st, r = call(h.verify, secret, hs, **bctx)
            if st == "err" or r is not True:
                rec.fail(f"C01/context-bytes/{name}/{k}", f"{name}: {k}= given as encoded bytes verifies differently from the text", "roundtrip", case, repr(r), True, soft=soft)
                return
            st, r = call(lambda: (h.using(**settings) if settings else h).hash(secret, **bctx))
            if st == "err" or h.verify(secret, r, **ctx) is not True:
                rec.fail(f"C01/context-bytes/{name}/{k}", f"{name}: hashing with {k}= given as encoded bytes fails or gives a hash that the text form does not verify", "roundtrip", case, repr(r), True, soft=soft)
                return
    ns = RF.norm_settings(name, settings)
    try:
        kp = f.key(secret, ns, ctx)
    except (UnicodeError, ValueError):
        rec.count("key_not_computable")
        return
    differing = 0
    for label, q in misses:
        if len(q) > 4096 or (isinstance(q, str) and len(q.encode("utf-8", "surrogatepass")) > 4096):
            continue  # beyond the library-wide maximum (counted in characters or, after encoding, in bytes): PasswordSizeError is decided by C05
        if f.maxlen is not None and len(q.encode() if isinstance(q, str) else q) > f.maxlen:
            expect = False
        else:
            try:
                kq = f.key(q, ns, ctx)
            except (UnicodeError, ValueError):
                st, r = call(h.verify, q, hs, **ctx)
                if st == "ok" and r is True:
                    rec.fail(f"C01/inadmissible-verifies/{name}", f"{name}: a password the format cannot represent verifies", "roundtrip", case, repr(q), False, soft=soft)
                elif st == "err" and not isinstance(r, (ValueError, TypeError)):
                    raise r
                continue
            expect = kq == kp
            if expect and q != secret and _padded_only(f, secret, q, ns, ctx):
                rec.count("equivalence_unspecified")
                continue
        st, r = call(h.verify, q, hs, **ctx)
        if st == "err":
            if isinstance(r, (ValueError, TypeError)) and not expect:
                rec.count("near_miss_refused")
                continue
            raise r
        if not expect:
            differing += 1
        rec.count(f"near-miss:{label}:{'equal-key' if expect else 'different-key'}")
        if r is not expect:
            kind = "false-accept" if r else "false-reject"
            rec.fail(f"C01/{kind}/{name}", f"{name}: verify() of a near-miss password is {r}, documented equivalence says {expect} ({label})",
                     "roundtrip", dict(case, misses=[[label, q]]), r, expect, soft=soft)
            return
    # context equivalences
    if "user" in ctx and ctx["user"]:
        u = ctx["user"]
        u2 = u.swapcase()
        if u2 != u and u2.lower() == u.lower() and u2.upper() == u.upper():
            st, r = call(h.verify, secret, hs, **dict(ctx, user=u2))
            if st == "ok":
                expect = name in ("msdcc", "msdcc2", "oracle10") or (name in ("cisco_pix", "cisco_asa") and f.key(secret, ns, dict(ctx, user=u2)) == kp)
                if r is not expect:
                    rec.fail(f"C01/user-case/{name}", f"{name}: verify with case-changed user is {r}, documented {expect}", "roundtrip", case, r, expect, soft=soft)
    if len(secret) > 0 and differing:
        salt = settings.get("salt")
        rec.nt(name, sorted(k for k in settings if k != "salt"), settings.get("ident"), None if salt is None or isinstance(salt, int) else len(salt),
               len(secret), case.get("cls"))


# ---- libpass hashers -------------------------------------------------------------------------
def libpass_hasher(kind, rounds):
    from libpass.hashers import bcrypt as lb
    from libpass.hashers import pbkdf2 as lp
    from libpass.hashers import sha_crypt as ls

    return {
        "SHA256Hasher": lambda: ls.SHA256Hasher(rounds=rounds),
        "SHA512Hasher": lambda: ls.SHA512Hasher(rounds=rounds),
        "PBKDF2SHA256Handler": lambda: lp.PBKDF2SHA256Handler(rounds=rounds),
        "PBKDF2SHA512Handler": lambda: lp.PBKDF2SHA512Handler(rounds=rounds),
        "BcryptHasher": lambda: lb.BcryptHasher(rounds=rounds),
        "BcryptSHA256Hasher": lambda: lb.BcryptSHA256Hasher(rounds=rounds),
    }[kind]()


LIBPASS = {
    "SHA256Hasher": (1000, 1100, None),
    "SHA512Hasher": (1000, 1100, None),
    "PBKDF2SHA256Handler": (1, 300, None),
    "PBKDF2SHA512Handler": (1, 300, None),
    "BcryptHasher": (4, 5, 72),
    "BcryptSHA256Hasher": (4, 5, None),
}


@oracle(PROPERTY, "libpass_roundtrip")
def o_libpass(rec: Recorder, case, soft=False):
    kind, rounds, secret, misses = case["kind"], case["rounds"], case["secret"], case.get("misses", [])
    h = libpass_hasher(kind, rounds)
    hs = h.hash(secret)
    if not isinstance(hs, str) or not hs.isascii():
        rec.fail(f"C01/libpass/not-ascii-str/{kind}", f"libpass {kind}.hash() did not return ASCII str", "libpass_roundtrip", case, hs, None, soft=soft)
        return
    if h.identify(hs) is not True:
        rec.fail(f"C01/libpass/identify/{kind}", f"libpass {kind} does not identify its own hash", "libpass_roundtrip", case, hs, True, soft=soft)
    if h.verify(hash=hs, secret=secret) is not True:
        rec.fail(f"C01/libpass/verify-own/{kind}", f"libpass {kind}: verify(hash(p), p) is not True", "libpass_roundtrip", case, hs, True, soft=soft)
        return
    other = _other_form(secret, {})
    if _within_max(other) and h.verify(hash=hs.encode(), secret=other) is not True:
        rec.fail(f"C01/libpass/text-bytes/{kind}", f"libpass {kind}: text/bytes forms verify differently", "libpass_roundtrip", case, repr(other), True, soft=soft)
    maxlen = LIBPASS[kind][2]
    sb = secret.encode() if isinstance(secret, str) else secret
    diff = 0
    for label, q in misses:
        qb = q.encode() if isinstance(q, str) else q
        if maxlen and len(qb) > maxlen or b"\0" in qb and kind.startswith("Bcrypt"):
            continue
        if qb == sb or len(qb) > 4096:
            continue
        if kind.startswith("PBKDF2") and table.key_hmac("sha256" if "256" in kind else "sha512")(qb, {}, {}) == table.key_hmac("sha256" if "256" in kind else "sha512")(sb, {}, {}):
            continue  # same HMAC key (trailing NUL / over-long key equivalence of RFC 2104)
        diff += 1
        r = h.verify(hash=hs, secret=q)
        if r is not False:
            rec.fail(f"C01/libpass/false-accept/{kind}", f"libpass {kind}: a different password verifies ({label})", "libpass_roundtrip",
                     dict(case, misses=[[label, q]]), r, False, soft=soft)
            return
    if len(secret) and diff:
        rec.nt(kind, rounds, len(secret), case.get("cls"))


ORACLES = {"roundtrip": o_roundtrip, "libpass_roundtrip": o_libpass}


# ---- tasks --------------------------------------------------------------------------------------
def _content_class(secret):
    if isinstance(secret, str):
        return "text-ascii" if secret.isascii() else "text-unicode"
    try:
        secret.decode("utf-8")
        return "bytes-ascii" if secret.isascii() else "bytes-utf8"
    except UnicodeDecodeError:
        return "bytes-raw"


def t_hasher(rec, seed, tier, name, backend=None):
    from hypothesis import strategies as st

    f = table.T[name]
    if not table.available(name):
        rec.count(f"skipped_unavailable:{name}")
        return
    h = table.handler(name)
    if backend:
        h.set_backend(backend)
    n = {"quick": 60, "thorough": 600}[tier]
    if name in ("atlassian_pbkdf2_sha1", "msdcc2") or backend:
        n //= 3
    if backend == "builtin" and f.base == "bcrypt" or (backend == "builtin" and "bcrypt" in name):
        n = 4 if tier == "quick" else 12
    big = tier == "thorough"

    @st.composite
    def cases(draw):
        ctx = draw(S.contexts(name))
        secret = draw(S.secrets(f, big=big))
        if isinstance(secret, str) and not S.encodable(secret, ctx, name):
            ctx.pop("encoding", None)
            if not S.encodable(secret, ctx, name):
                secret = "".join(ch for ch in secret if ord(ch) < 128)
        if isinstance(secret, bytes) and draw(st.booleans()):
            try:
                secret = secret.decode("utf-8")
            except UnicodeDecodeError:
                pass
        explicit = draw(st.integers(0, 3)) > 0
        settings = draw(S.settings(name, explicit_salt=explicit))
        if not explicit and f.salt and f.salt[0] != "int" and f.salt[1] != f.salt[2] and draw(st.booleans()):
            lo, hi = f.salt[1], f.salt[2]
            settings["salt_size"] = draw(st.integers(lo, min(hi, 40)))
        if name == "unix_disabled" and "marker" in settings and settings["marker"] is None:
            settings.pop("marker")
        misses = draw(S.near_misses(secret, count=draw(st.integers(4, 6))))
        return {"name": name, "settings": settings, "ctx": ctx, "secret": secret, "misses": [list(m) for m in misses], "cls": _content_class(secret)}

    def body(case):
        rec.ev()
        rec.count(f"{name}:{case['cls']}")
        if 2 < len(case["secret"]) < 60:
            rec.sample(name, case)
        o_roundtrip(rec, case)

    hyp_campaign(rec, body, cases(), n, seed)


def t_libpass(rec, seed, tier, kind):
    from hypothesis import strategies as st

    lo, hi, maxlen = LIBPASS[kind]
    n = {"quick": 60, "thorough": 600}[tier]
    f = table.Fmt("x", secret="nonul" if kind.startswith("Bcrypt") else "bytes", maxlen=maxlen)

    @st.composite
    def cases(draw):
        secret = draw(S.secrets(f, big=tier == "thorough" and not kind.startswith("Bcrypt")))
        if draw(st.booleans()):
            try:
                secret = secret.decode("utf-8")
            except UnicodeDecodeError:
                pass
        misses = draw(S.near_misses(secret, count=4))
        return {"kind": kind, "rounds": draw(st.integers(lo, hi)), "secret": secret, "misses": [list(m) for m in misses], "cls": _content_class(secret)}

    def body(case):
        rec.ev()
        rec.count(f"libpass:{kind}:{case['cls']}")
        if 2 < len(case["secret"]) < 60:
            rec.sample(f"libpass:{kind}", case)
        o_libpass(rec, case)

    hyp_campaign(rec, body, cases(), n, seed)


def tasks(tier):
    ts = []
    for name in sorted(table.T):
        ts.append({"name": f"h-{name}", "fn": "t_hasher", "kw": {"name": name}})
    for kind in LIBPASS:
        ts.append({"name": f"libpass-{kind}", "fn": "t_libpass", "kw": {"kind": kind}})
    # builtin backends (never executed by the pinned suite in its default mode)
    for name in ("md5_crypt", "sha1_crypt", "sha256_crypt", "sha512_crypt", "des_crypt", "bsdi_crypt", "scrypt") + (("bcrypt", "bcrypt_sha256") if tier == "thorough" else ("bcrypt",)):
        ts.append({"name": f"builtin-{name}", "fn": "t_hasher", "kw": {"name": name, "backend": "builtin"}, "env": {"PASSLIB_BUILTIN_BCRYPT": "1"}})
    return ts
