"""C04 -- CryptContext identifies, verifies, flags and rehashes exactly per its policy."""

from __future__ import annotations

from .. import ctxmodel
from ..common import Recorder, Violation, call, hyp_campaign, oracle
from ..ctxmodel import ConfigError, Model
from ..gens import ctxgen, table

PROPERTY = "C04"
LEVEL = "exploration"
RULE = (
    "Hypothesis-generated configurations: 1-5 schemes from 16 cheap ones (+ plaintext / unix_disabled last), default, deprecated "
    "(list | auto | absent), per-scheme rounds / min_rounds / max_rounds / default_rounds / vary_rounds (inside, at and beyond hard "
    "limits; ints or strings), 0-2 user categories with partial overrides, plus an unconfigured category name; hashes from every "
    "configured scheme at costs below / at / above the window, made with the UNCONFIGURED handler; right and wrong passwords; "
    "sequences of verify_and_update until a fixed point. Oracle: the reference model vpchk/ctxmodel.py (option inheritance, "
    "default, deprecated/auto, category fallback, relaxed clipping, default clipped into the window): identify == first claiming "
    "scheme; hash() is identified as the category's default scheme, carries the model's cost (== default when vary is 0, inside "
    "the vary window otherwise), verifies; needs_update == (deprecated or rounds outside window or documented scheme flag); "
    "verify_and_update in {(False,None),(True,None),(True,new)} consistently, new from the default scheme, verifying, needing no "
    "update; a fresh hash never needs an update under the same category; fixed point after <=1 update. Non-trivial = >=2 schemes "
    "and (a category override or a rounds window or a deprecated entry) and a hash from a non-default scheme or with out-of-window cost."
)
ASSUMPTIONS = [
    "vpchk/ctxmodel.py transcribes docs/lib/passlib.context.rst and DESIGN.md appendix A; 'which scheme claims a hash' uses each handler's identify()",
    "configurations the model predicts inconsistent must make the constructor raise (shared with C10)",
    "documented scheme flags: bsdi_crypt even rounds, bcrypt $2a$ salt padding bits, bcrypt_sha256 version 1",
]
LEVEL_TEXT = (
    "Model-based generated-input testing: every decision of the context (attribution, cost of new hashes, needs_update, "
    "verify_and_update, fixed point) is compared with an independently written policy model over generated configurations, "
    "categories and hashes at window boundaries."
)
LEVEL_NOTE = "Trusted: the ~200-line policy model (vpchk/ctxmodel.py), each handler's identify(), Hypothesis."
TECHNIQUE = "Hypothesis model-based testing of CryptContext against a reference policy model"
#: thorough tier: seed-dependent tasks are repeated under this many derived seeds (run.py); the listed task functions enumerate fixed domains
THOROUGH_REPS = 4
DETERMINISTIC_FNS = ('t_directed', 't_scheme_flags', 't_context_kwds')

PW = "pässword"


def make_hash(scheme, rounds, i=0):
    h = table.handler(scheme)
    kw = {}
    if rounds is not None:
        kw["rounds"] = rounds
    if scheme == "bcrypt":
        kw["ident"] = ["2b", "2a", "2y"][i % 3]
    if scheme == "phpass":
        kw["ident"] = ["P", "H"][i % 2]
    custom = h.using(**kw) if kw else h
    return custom.hash(PW)


def cost_points(model, scheme, cat):
    """rounds values below / at / above the configured window for probing"""
    win = ctxgen.POOL.get(scheme)
    if not win:
        return [None]
    h = table.handler(scheme)
    lo, hi = win
    try:
        w = model.rounds_window(scheme, cat)
    except ConfigError:
        return [lo]
    pts = {lo, hi}
    mn, mx, df, _ = w
    for v in (mn, mx, df):
        if v:
            pts.update([v - 1, v, v + 1])
    pts = {p for p in pts if p is not None and h.min_rounds <= p <= max(hi, (mx or hi)) + 1 and p <= hi * 2 + 2}
    if scheme == "bsdi_crypt":
        pts = {p | 1 for p in pts} | {p for p in pts if p % 2 == 0 and p >= 2}
    return sorted(pts)[:8]


@oracle(PROPERTY, "policy")
def o_policy(rec: Recorder, case, soft=False):
    """case: {config, probes:[[scheme, rounds, i]...]}"""
    from passlib.context import CryptContext

    cfg = case["config"]
    try:
        model = Model(cfg)
        for s in model.names:
            for cat in [None] + sorted(model.cats):
                model.rounds_window(s, cat)
        must_raise = False
    except ConfigError as e:
        must_raise = str(e)
    st, ctx = call(lambda: CryptContext(**cfg))
    if must_raise:
        if st == "ok":
            rec.fail("C04/inconsistent-config-accepted", f"a configuration the documented rules make inconsistent ({must_raise}) is accepted", "policy", case, None, "ValueError", soft=soft)
        else:
            rec.count("config:must-raise")
        return
    if st == "err":
        rec.fail(f"C04/valid-config-rejected/{type(ctx).__name__}", "a configuration that is consistent per the documented rules is rejected", "policy", case, repr(ctx), "accepted", soft=soft)
        return
    cats = ctxgen.categories_for(cfg)
    if tuple(ctx.schemes()) != tuple(model.names):
        rec.fail("C04/schemes", "schemes() differs from the configured list", "policy", case, ctx.schemes(), model.names, soft=soft)
        return
    # a bystander: a second context with the same schemes and settings but another deprecation policy is built and used between this
    # context's first use and its probing -- every context decides by ITS OWN policy, whatever other contexts exist in the process
    for s in model.names:
        for cat in cats:
            call(ctx.handler, s, cat)
    cfg2 = {k: v for k, v in cfg.items() if not k.endswith("deprecated")}
    dflts = {model.default_scheme(c) for c in cats}
    if not any(k.endswith("deprecated") for k in cfg):
        cfg2["deprecated"] = [s for s in model.names if s not in dflts]
    st_b, other = call(lambda: CryptContext(**cfg2))
    if st_b == "ok":
        rec.count("bystander-context")
        for s in model.names:
            for cat in cats:
                call(other.handler, s, cat)
    # new hashes: default scheme + configured cost, never needing an update
    for cat in cats:
        dflt = model.default_scheme(cat)
        if ctx.default_scheme(category=cat) != dflt:
            rec.fail("C04/default-scheme", f"default_scheme(category={cat!r}) differs from the model", "policy", dict(case, category=cat), ctx.default_scheme(category=cat), dflt, soft=soft)
            return
        if table.T[dflt].disabled:
            continue
        st, h = call(ctx.hash, PW, category=cat)
        if st == "err":
            rec.fail(f"C04/hash-raises/{type(h).__name__}", "hash() raises under a valid configuration", "policy", dict(case, category=cat), repr(h), None, soft=soft)
            return
        if model.owner(h) != dflt or ctx.identify(h, category=cat) != dflt:
            rec.fail("C04/new-hash-scheme", f"hash(category={cat!r}) is not a hash of the category's default scheme", "policy", dict(case, category=cat), [h, ctx.identify(h)], dflt, soft=soft)
            return
        w = model.rounds_window(dflt, model.cat_of(cat))
        if w is not None and dflt == "bsdi_crypt" and w[0] and w[1] and w[0] == w[1] and w[0] % 2 == 0:
            # a window holding a single even value contradicts bsdi_crypt's documented odd-rounds rule
            # (the library warns about it): no hash can satisfy both, nothing to judge
            rec.count("bsdi-even-only-window")
            continue
        if w is not None:
            mn, mx, df, vary = w
            r = ctxmodel.parsed_rounds(dflt, h)
            want = df
            if dflt in ("bsdi_crypt",) and want is not None:
                pass
            ok = True
            if not vary:
                if dflt == "bsdi_crypt":
                    ok = r % 2 == 1 and abs(r - want) <= 1  # documented: generated rounds are made odd
                else:
                    ok = r == want
            else:
                ok = (not mn or r >= mn) and (not mx or r <= mx)
            if not ok:
                rec.fail(f"C04/new-hash-cost/{dflt}", f"hash(category={cat!r}) does not carry the configured cost", "policy", dict(case, category=cat), r, {"default": want, "min": mn, "max": mx, "vary": vary}, soft=soft)
                return
            if (mn and r < mn) or (mx and r > mx):
                rec.fail(f"C04/new-hash-outside-window/{dflt}", f"hash(category={cat!r}) has a cost outside the configured window", "policy", dict(case, category=cat), r, [mn, mx], soft=soft)
                return
        if ctx.verify(PW, h, category=cat) is not True or ctx.verify("wrong", h, category=cat) is not False:
            rec.fail("C04/new-hash-verify", "a fresh hash does not verify its password (or verifies a wrong one)", "policy", dict(case, category=cat), h, None, soft=soft)
            return
        if ctx.needs_update(h, category=cat) is not False:
            rec.fail(f"C04/fresh-needs-update/{dflt}", f"a hash the context has just produced (category={cat!r}) needs an update under the same context and category", "policy", dict(case, category=cat), h, False, soft=soft)
            return
    # probes: hashes from every scheme at costs around the window
    nontrivial = False
    for scheme, rounds, i in case["probes"]:
        if table.T[scheme].disabled or table.T[scheme].plaintext:
            continue
        h = make_hash(scheme, rounds, i)
        owner = model.owner(h)
        # the stored hash may be handed in as ASCII bytes: every decision is the one made for the text form
        hb = h.encode("ascii")
        for label, fn in (("identify", lambda x: ctx.identify(x)), ("needs_update", lambda x: ctx.needs_update(x)), ("verify", lambda x: ctx.verify(PW, x)),
                          ("verify-wrong", lambda x: ctx.verify("wrong", x)), ("verify_and_update", lambda x: (lambda r: (r[0], r[1] is None))(ctx.verify_and_update(PW, x)))):
            a, b = call(fn, h), call(fn, hb)
            if a[0] == "ok" and (b[0] == "err" or a[1] != b[1]):
                rec.fail(f"C04/bytes-hash/{label}", f"CryptContext.{label}() decides differently for the ASCII-bytes form of a hash", "policy", dict(case, probe=[scheme, rounds, i]), repr(b[1])[:120], repr(a[1])[:120], soft=soft)
                return
        for cat in cats:
            got = ctx.identify(h, category=cat)
            if got != owner:
                rec.fail("C04/attribution", "identify() is not the first configured scheme that claims the hash", "policy", dict(case, probe=[scheme, rounds, i], category=cat), got, owner, soft=soft)
                return
            flag = ctxmodel.scheme_flag(owner, h)
            want_nu = model.needs_update(h, cat, flag)
            st, nu = call(ctx.needs_update, h, category=cat)
            if st == "err" or nu is not want_nu:
                why = "deprecated" if model.is_deprecated(owner, cat) else "window/flag"
                rec.fail(f"C04/needs-update/{owner}/{'missed' if want_nu else 'spurious'}", f"needs_update(category={cat!r}) is {nu!r}, policy says {want_nu} ({why})", "policy",
                         dict(case, probe=[scheme, rounds, i], category=cat), [h, repr(nu)], want_nu, soft=soft)
                return
            for pw, right in ((PW, True), ("wrong", False)):
                st, res = call(ctx.verify_and_update, pw, h, category=cat)
                if st == "err":
                    rec.fail("C04/verify-and-update-raises", "verify_and_update raises", "policy", dict(case, probe=[scheme, rounds, i], category=cat), repr(res), None, soft=soft)
                    return
                ok, new = res
                if ok is not right or (not right and new is not None):
                    rec.fail("C04/verify-and-update-verdict", "verify_and_update verdict differs from verify()", "policy", dict(case, probe=[scheme, rounds, i], category=cat), res, right, soft=soft)
                    return
                if right:
                    dflt = model.default_scheme(cat)
                    dw = model.rounds_window(dflt, model.cat_of(cat)) if dflt == "bsdi_crypt" else None
                    if dw and dw[0] and dw[0] == dw[1] and dw[0] % 2 == 0:
                        rec.count("bsdi-even-only-window")
                        continue
                    if want_nu and not table.T[dflt].disabled:
                        if new is None:
                            rec.fail("C04/no-rehash", "verify_and_update does not return a replacement for a hash that needs updating", "policy", dict(case, probe=[scheme, rounds, i], category=cat), res, "(True, new)", soft=soft)
                            return
                        if model.owner(new) != dflt or ctx.verify(PW, new, category=cat) is not True or ctx.needs_update(new, category=cat) is not False:
                            rec.fail("C04/bad-rehash", "the replacement hash is not a default-scheme hash verifying the password and needing no update", "policy", dict(case, probe=[scheme, rounds, i], category=cat), new, dflt, soft=soft)
                            return
                        ok2, new2 = ctx.verify_and_update(PW, new, category=cat)
                        if ok2 is not True or new2 is not None:
                            rec.fail("C04/no-fixed-point", "verify_and_update does not reach a fixed point after one update", "policy", dict(case, probe=[scheme, rounds, i], category=cat), [ok2, new2], (True, None), soft=soft)
                            return
                    elif not want_nu and new is not None:
                        rec.fail("C04/spurious-rehash", "verify_and_update returns a replacement for a hash that needs no update", "policy", dict(case, probe=[scheme, rounds, i], category=cat), res, "(True, None)", soft=soft)
                        return
            # documented aliases / keyword forms decide like the plain call, for this category too
            for label, fn in (("hash_needs_update", lambda: ctx.hash_needs_update(h, category=cat)), ("needs_update(scheme=)", lambda: ctx.needs_update(h, scheme=owner, category=cat)),
                              ("verify_and_update(scheme=)", lambda: ctx.verify_and_update(PW, h, scheme=owner, category=cat)[1] is not None)):
                st, v = call(fn)
                if st == "err" or v is not want_nu:
                    rec.fail(f"C04/alias-differs/{label}", f"{label} decides differently from needs_update() for the same hash and category", "policy", dict(case, probe=[scheme, rounds, i], category=cat), repr(v), want_nu, soft=soft)
                    return
            st, v = call(lambda: ctx.verify(PW, h, scheme=owner, category=cat))
            if st == "err" or v is not True:
                rec.fail("C04/alias-differs/verify(scheme=)", "verify(scheme=<owner>) differs from verify()", "policy", dict(case, probe=[scheme, rounds, i], category=cat), repr(v), True, soft=soft)
                return
            if len(model.names) >= 2 and (owner != model.default_scheme(cat) or want_nu):
                nontrivial = True
    # the hasher objects the context reports for a category carry that category's policy
    for cat in cats:
        st, hs_list = call(ctx.schemes, resolve=True, category=cat)
        if st == "err" or [x.name for x in hs_list] != list(model.names):
            rec.fail("C04/schemes-resolve", "schemes(resolve=True, category=..) does not list the configured hashers", "policy", dict(case, category=cat), repr(hs_list)[:120], model.names, soft=soft)
            return
        for sch, obj in zip(model.names, hs_list):
            w = model.rounds_window(sch, model.cat_of(cat))
            via_handler = ctx.handler(sch, category=cat)
            for o, label in ((obj, "schemes(resolve=True)"), (via_handler, "handler()")):
                if w is not None and (o.min_desired_rounds or None, o.max_desired_rounds or None, o.default_rounds) != (w[0] or None, w[1] or None, w[2]):
                    rec.fail(f"C04/reported-hasher/{label}", f"the hasher reported by {label} for category {cat!r} does not carry that category's cost policy", "policy", dict(case, category=cat, scheme=sch),
                             (o.min_desired_rounds, o.max_desired_rounds, o.default_rounds), w[:3], soft=soft)
                    return
        st, dobj = call(ctx.default_scheme, category=cat, resolve=True)
        if st == "err" or dobj.name != model.default_scheme(cat):
            rec.fail("C04/default-scheme-resolve", "default_scheme(resolve=True) is not the category's default hasher", "policy", dict(case, category=cat), repr(dobj)[:80], model.default_scheme(cat), soft=soft)
            return
    # encrypt() is the documented legacy name of hash()
    for cat in cats:
        dflt = model.default_scheme(cat)
        if table.T[dflt].disabled:
            continue
        w2 = model.rounds_window(dflt, model.cat_of(cat)) if dflt == "bsdi_crypt" else None
        if w2 and w2[0] and w2[0] == w2[1] and w2[0] % 2 == 0:
            continue  # single even value: unsatisfiable for bsdi_crypt (see above)
        st, h2 = call(ctx.encrypt, PW, category=cat)
        if st == "err" or model.owner(h2) != dflt or ctx.needs_update(h2, category=cat) is not False:
            rec.fail("C04/alias-differs/encrypt", "encrypt() (legacy name of hash()) does not produce a default-scheme hash that needs no update", "policy", dict(case, category=cat), repr(h2), dflt, soft=soft)
            return
    return nontrivial


@oracle(PROPERTY, "scheme_flags")
def o_scheme_flags(rec: Recorder, case, soft=False):
    """case: {scheme, policy:{..}, made:{..}}: the scheme's own documented update flags, seen through a context configured with `policy`:
    scrypt flags another block size / parallelism, bcrypt_sha256 an older version, on top of the cost window"""
    from passlib.context import CryptContext

    scheme, policy, made = case["scheme"], case["policy"], case["made"]
    if not table.available(scheme):
        return
    ctx = CryptContext([scheme, "md5_crypt"], **{f"{scheme}__{k}": v for k, v in policy.items()})
    h = table.handler(scheme).using(**made).hash(PW)
    if scheme == "scram":
        norm = lambda a: set(a.split(",")) if isinstance(a, str) else set(a)  # noqa: E731
        want = not norm(made.get("algs", "sha-1,sha-256,sha-512")) >= norm(policy.get("algs", "sha-1,sha-256,sha-512")) or made["rounds"] != policy["rounds"]
    elif scheme == "scrypt":
        want = made.get("block_size", 8) != policy.get("block_size", 8) or made.get("parallelism", 1) != policy.get("parallelism", 1) or made["rounds"] != policy["rounds"]
    else:
        want = made.get("version", 2) < policy.get("version", 2) or made["rounds"] != policy["rounds"]
    for cat in (None, "admin"):
        st, got = call(ctx.needs_update, h, category=cat)
        if st == "err" or got is not want:
            rec.fail(f"C04/scheme-flag/{scheme}", f"needs_update() of a {scheme} hash made with {made} under the policy {policy} is {got!r}", "scheme_flags", case, repr(got), want, soft=soft)
            return
        st, res = call(ctx.verify_and_update, PW, h, category=cat)
        if st == "err" or res[0] is not True or (res[1] is not None) is not want:
            rec.fail(f"C04/scheme-flag/{scheme}/verify_and_update", "verify_and_update does not follow the scheme's update flag", "scheme_flags", case, repr(res), want, soft=soft)
            return
        if want and (ctx.needs_update(res[1], category=cat) is not False or ctx.verify(PW, res[1]) is not True):
            rec.fail(f"C04/scheme-flag/{scheme}/bad-rehash", "the replacement hash still needs an update / does not verify", "scheme_flags", case, res[1], None, soft=soft)
            return
    fresh = ctx.hash(PW)
    if ctx.needs_update(fresh) is not False:
        rec.fail(f"C04/fresh-needs-update/{scheme}", "a hash the context has just produced needs an update", "scheme_flags", case, fresh, False, soft=soft)


@oracle(PROPERTY, "context_kwds")
def o_context_kwds(rec: Recorder, case, soft=False):
    """case: {schemes, default, deprecated, old}: contexts mixing schemes that take user= with schemes that do not; every call passes user=.
    The keyword reaches the schemes that take it and is dropped for the others; a replacement hash is made WITH it."""
    from passlib.context import CryptContext

    schemes, default, dep, old = case["schemes"], case["default"], case["deprecated"], case["old"]
    kw = {"schemes": schemes, "default": default}
    if dep:
        kw["deprecated"] = dep
    ctx = CryptContext(**kw)
    takes = lambda n: "user" in table.T[n].ctx  # noqa: E731
    if not any(takes(x) for x in schemes):
        return  # no scheme of the context knows the keyword: passing it is a caller error (TypeError), nothing to judge
    oh = table.handler(old)
    h = oh.hash(PW, **({"user": "bob"} if takes(old) else {}))
    for user in ("bob", "alice"):
        want = True if not takes(old) else user == "bob"
        st, v = call(ctx.verify, PW, h, user=user)
        if st == "err" or v is not want:
            rec.fail("C04/context-kwds/verify", "verify(user=..) through a mixed context differs from the scheme's own answer", "context_kwds", dict(case, user=user), repr(v), want, soft=soft)
            return
    st, res = call(ctx.verify_and_update, PW, h, user="bob")
    want_new = old in (dep or []) or (dep == ["auto"] and old != default)
    if st == "err" or res[0] is not True or (res[1] is not None) is not want_new:
        rec.fail("C04/context-kwds/verify_and_update", "verify_and_update(user=..) through a mixed context fails or gives the wrong verdict", "context_kwds", case, repr(res), (True, "new" if want_new else None), soft=soft)
        return
    if want_new:
        new = res[1]
        dh = table.handler(default)
        ok = dh.identify(new) and dh.verify(PW, new, **({"user": "bob"} if takes(default) else {}))
        if takes(default):
            ok = ok and not dh.verify(PW, new, user="alice")
        if not ok or ctx.verify(PW, new, user="bob") is not True:
            rec.fail("C04/context-kwds/bad-rehash", "the replacement hash was not made by the default scheme with the caller's user=", "context_kwds", case, new, None, soft=soft)
            return
    st, fresh = call(ctx.hash, PW, user="bob")
    if st == "err" or ctx.verify(PW, fresh, user="bob") is not True or (takes(default) and ctx.verify(PW, fresh, user="alice") is not False):
        rec.fail("C04/context-kwds/hash", "hash(user=..) through a mixed context fails or ignores the keyword", "context_kwds", case, repr(fresh), None, soft=soft)


def t_scheme_flags(rec, seed, tier):
    n = 0
    for pol in ({"rounds": 2}, {"rounds": 2, "parallelism": 2}, {"rounds": 2, "block_size": 4}, {"rounds": 3, "parallelism": 2, "block_size": 4}):
        for made in ({"rounds": 2}, {"rounds": 2, "parallelism": 2}, {"rounds": 2, "block_size": 4}, {"rounds": 3, "parallelism": 2, "block_size": 4}, {"rounds": 3}):
            rec.ev()
            rec.nt("scheme-flag", "scrypt", sorted(pol.items()), sorted(made.items()))
            o_scheme_flags(rec, {"scheme": "scrypt", "policy": pol, "made": made}, soft=True)
            n += 1
    for pol in ({"rounds": 10}, {"rounds": 10, "algs": "sha-1,sha-256"}, {"rounds": 10, "algs": "sha-1"}, {"rounds": 10, "algs": "sha-1,md5"}):
        for made in ({"rounds": 10}, {"rounds": 10, "algs": "sha-1"}, {"rounds": 10, "algs": "sha-1,sha-256"}, {"rounds": 10, "algs": "sha-1,sha-256,md5"}, {"rounds": 11, "algs": "sha-1,sha-256"}):
            rec.ev()
            rec.nt("scheme-flag", "scram", sorted(pol.items()), sorted(made.items()))
            o_scheme_flags(rec, {"scheme": "scram", "policy": pol, "made": made}, soft=True)
            n += 1
    for pol in ({"rounds": 4}, {"rounds": 4, "version": 2}, {"rounds": 4, "version": 1}, {"rounds": 5}):
        for made in ({"rounds": 4, "version": 1, "ident": "2a"}, {"rounds": 4, "version": 2}, {"rounds": 4, "version": 1}, {"rounds": 5, "version": 2}):
            rec.ev()
            rec.nt("scheme-flag", "bcrypt_sha256", sorted(pol.items()), sorted(made.items()))
            o_scheme_flags(rec, {"scheme": "bcrypt_sha256", "policy": pol, "made": made}, soft=True)
            n += 1
    rec.sample("scheme_flags", {"scrypt": "policy x made over block_size/parallelism/rounds", "bcrypt_sha256": "policy x made over version/rounds"})
    rec.subrecord("scheme-flags", exhaustive=True, cases=n)


def t_context_kwds(rec, seed, tier):
    import itertools

    pool = ["postgres_md5", "hex_sha1", "md5_crypt", "oracle10", "msdcc"]  # no two of these claim the same strings
    n = 0
    for k in (2, 3):
        for schemes in itertools.permutations(pool, k):
            for default in schemes:
                for dep in (None, ["auto"], [x for x in schemes if x != default][:1]):
                    for old in schemes:
                        rec.ev()
                        takes = ["user" in table.T[x].ctx for x in schemes]
                        if any(takes) and not all(takes):
                            rec.nt("ctxkw", schemes, default, tuple(dep or ()), old)
                        o_context_kwds(rec, {"schemes": list(schemes), "default": default, "deprecated": dep, "old": old}, soft=True)
                        n += 1
    rec.sample("context_kwds", {"pool": pool, "cases": n})
    rec.subrecord("context-keywords", exhaustive=True, cases=n)


ORACLES = {"policy": o_policy, "scheme_flags": o_scheme_flags, "context_kwds": o_context_kwds}


def t_policy(rec, seed, tier, shard):
    from hypothesis import strategies as st

    n = {"quick": 300, "thorough": 3000}[tier]

    @st.composite
    def cases(draw):
        cfg = draw(ctxgen.configs())
        probes = []
        try:
            m = Model(cfg)
            for s in m.names:
                if table.T[s].disabled or table.T[s].plaintext:
                    continue
                pts = []
                for cat in [None] + sorted(m.cats):
                    pts += cost_points(m, s, cat)
                pts = sorted(set(pts), key=lambda x: (x is None, x))
                k = draw(st.integers(1, min(3, len(pts))))
                for r in draw(st.lists(st.sampled_from(pts), min_size=k, max_size=k, unique=True)):
                    probes.append([s, r, draw(st.integers(0, 5))])
        except ConfigError:
            pass
        return {"config": cfg, "probes": probes}

    def body(case):
        rec.ev()
        cfg = case["config"]
        has_policy = any("__" in k for k in cfg) or "deprecated" in cfg
        rec.count(f"config:{len(cfg['schemes'])}-schemes:{'cats' if any(k.count('__') == 2 for k in cfg) else 'flat'}")
        rec.sample("config", case)
        nt = o_policy(rec, case)
        if nt and has_policy:
            rec.nt(sorted((k, repr(v)) for k, v in cfg.items()), tuple(map(tuple, case["probes"])))

    hyp_campaign(rec, body, cases(), n, seed + shard, shrink_budget=25)


def t_directed(rec, seed, tier):
    """hand-picked boundary configurations (documented examples and the hard-limit edges)"""
    cases = [
        # options for ALL schemes of one user category (documented inheritance: all < scheme < category-all < category-scheme)
        {"config": {"schemes": ["sha256_crypt", "md5_crypt"], "admin__all__max_rounds": 2000, "sha256_crypt__default_rounds": 2500}, "probes": [["sha256_crypt", 1999, 0], ["sha256_crypt", 2000, 0], ["sha256_crypt", 2500, 0]]},
        {"config": {"schemes": ["sha512_crypt", "pbkdf2_sha256"], "staff__all__min_rounds": 1500, "sha512_crypt__default_rounds": 1200, "pbkdf2_sha256__default_rounds": 100, "pbkdf2_sha256__max_rounds": 3000},
         "probes": [["sha512_crypt", 1200, 0], ["sha512_crypt", 1500, 0], ["pbkdf2_sha256", 100, 0], ["pbkdf2_sha256", 1500, 0]]},
        {"config": {"schemes": ["sha256_crypt", "md5_crypt"], "admin__all__vary_rounds": 0, "all__vary_rounds": "10%", "sha256_crypt__default_rounds": 2000}, "probes": [["sha256_crypt", 2000, 0]]},
        {"config": {"schemes": ["bsdi_crypt"], "bsdi_crypt__max_rounds": 200, "bsdi_crypt__default_rounds": 200}, "probes": [["bsdi_crypt", 199, 0], ["bsdi_crypt", 201, 0], ["bsdi_crypt", 200, 0]]},
        {"config": {"schemes": ["bsdi_crypt", "des_crypt"], "bsdi_crypt__rounds": 100, "deprecated": ["des_crypt"]}, "probes": [["des_crypt", None, 0], ["bsdi_crypt", 101, 0], ["bsdi_crypt", 99, 0]]},
        {"config": {"schemes": ["sha256_crypt", "md5_crypt"], "deprecated": ["auto"], "sha256_crypt__rounds": 1000}, "probes": [["md5_crypt", None, 0], ["sha256_crypt", 1000, 0], ["sha256_crypt", 1001, 0]]},
        {"config": {"schemes": ["sha256_crypt", "md5_crypt"], "deprecated": ["auto"], "sha256_crypt__rounds": 1200, "admin__context__default": "md5_crypt"}, "probes": [["md5_crypt", None, 0], ["sha256_crypt", 1200, 0]]},
        {"config": {"schemes": ["pbkdf2_sha256"], "pbkdf2_sha256__min_rounds": 10, "pbkdf2_sha256__max_rounds": 20, "pbkdf2_sha256__default_rounds": 15, "admin__pbkdf2_sha256__min_rounds": 18, "admin__pbkdf2_sha256__default_rounds": 19},
         "probes": [["pbkdf2_sha256", 9, 0], ["pbkdf2_sha256", 10, 0], ["pbkdf2_sha256", 17, 0], ["pbkdf2_sha256", 18, 0], ["pbkdf2_sha256", 20, 0], ["pbkdf2_sha256", 21, 0]]},
        {"config": {"schemes": ["sha256_crypt"], "sha256_crypt__rounds": 1}, "probes": [["sha256_crypt", 1000, 0], ["sha256_crypt", 1001, 0]]},
        {"config": {"schemes": ["phpass", "md5_crypt"], "phpass__rounds": "8", "default": "phpass", "staff__context__deprecated": ["phpass"], "staff__context__default": "md5_crypt"}, "probes": [["phpass", 7, 0], ["phpass", 8, 1], ["md5_crypt", None, 0]]},
    ]
    if table.available("bcrypt"):
        cases.append({"config": {"schemes": ["bcrypt", "md5_crypt"], "bcrypt__rounds": 4, "deprecated": ["md5_crypt"]}, "probes": [["bcrypt", 4, 0], ["bcrypt", 4, 1], ["bcrypt", 5, 2], ["md5_crypt", None, 0]]})
    for case in cases:
        rec.ev()
        rec.nt("directed", sorted((k, repr(v)) for k, v in case["config"].items()))
        rec.sample("directed", case)
        o_policy(rec, case, soft=True)


def tasks(tier):
    ts = [{"name": "scheme-flags", "fn": "t_scheme_flags"}, {"name": "context-kwds", "fn": "t_context_kwds"}]
    ts += [{"name": f"policy-{i:02d}", "fn": "t_policy", "kw": {"shard": i}} for i in range(14 if tier == "quick" else 16)]
    ts.append({"name": "directed", "fn": "t_directed"})
    return ts
