"""C04 -- CryptContext identifies, verifies, flags and rehashes exactly per its policy."""

from __future__ import annotations

from .. import ctxmodel
from ..common import Recorder, Violation, call, hyp_campaign, oracle
from ..ctxmodel import ConfigError, Model
from ..gens import ctxgen, table

PROPERTY = "C04"
LEVEL = "exploration"
RULE = (
    "Hypothesis-generated configurations: 1-5 schemes from 16 cheap ones (+ plaintext / unix_disabled last), default, deprecated "
    "(list | auto | absent), per-scheme rounds / min_rounds / max_rounds / default_rounds / vary_rounds (inside, at and beyond hard "
    "limits; ints or strings), 0-2 user categories with partial overrides, plus an unconfigured category name; hashes from every "
    "configured scheme at costs below / at / above the window, made with the UNCONFIGURED handler; right and wrong passwords; "
    "sequences of verify_and_update until a fixed point. Oracle: the reference model vpchk/ctxmodel.py (option inheritance, "
    "default, deprecated/auto, category fallback, relaxed clipping, default clipped into the window): identify == first claiming "
    "scheme; hash() is identified as the category's default scheme, carries the model's cost (== default when vary is 0, inside "
    "the vary window otherwise), verifies; needs_update == (deprecated or rounds outside window or documented scheme flag); "
    "verify_and_update in {(False,None),(True,None),(True,new)} consistently, new from the default scheme, verifying, needing no "
    "update; a fresh hash never needs an update under the same category; fixed point after <=1 update. Non-trivial = >=2 schemes "
    "and (a category override or a rounds window or a deprecated entry) and a hash from a non-default scheme or with out-of-window cost."
)
ASSUMPTIONS = [
    "vpchk/ctxmodel.py transcribes docs/lib/passlib.context.rst and DESIGN.md appendix A; 'which scheme claims a hash' uses each handler's identify()",
    "configurations the model predicts inconsistent must make the constructor raise (shared with C10)",
    "documented scheme flags: bsdi_crypt even rounds, bcrypt $2a$ salt padding bits, bcrypt_sha256 version 1",
]
LEVEL_TEXT = (
    "Model-based generated-input testing: every decision of the context (attribution, cost of new hashes, needs_update, "
    "verify_and_update, fixed point) is compared with an independently written policy model over generated configurations, "
    "categories and hashes at window boundaries."
)
LEVEL_NOTE = "Trusted: the ~200-line policy model (vpchk/ctxmodel.py), each handler's identify(), Hypothesis."
TECHNIQUE = "Hypothesis model-based testing of CryptContext against a reference policy model"
#: thorough tier: seed-dependent tasks are repeated under this many derived seeds (run.py); the listed task functions enumerate fixed domains
THOROUGH_REPS = 4
DETERMINISTIC_FNS = ('t_directed',)

PW = "pässword"


def make_hash(scheme, rounds, i=0):
    h = table.handler(scheme)
    kw = {}
    if rounds is not None:
        kw["rounds"] = rounds
    if scheme == "bcrypt":
        kw["ident"] = ["2b", "2a", "2y"][i % 3]
    if scheme == "phpass":
        kw["ident"] = ["P", "H"][i % 2]
    custom = h.using(**kw) if kw else h
    return custom.hash(PW)


def cost_points(model, scheme, cat):
    """rounds values below / at / above the configured window for probing"""
    win = ctxgen.POOL.get(scheme)
    if not win:
        return [None]
    h = table.handler(scheme)
    lo, hi = win
    try:
        w = model.rounds_window(scheme, cat)
    except ConfigError:
        return [lo]
    pts = {lo, hi}
    mn, mx, df, _ = w
    for v in (mn, mx, df):
        if v:
            pts.update([v - 1, v, v + 1])
    pts = {p for p in pts if p is not None and h.min_rounds <= p <= max(hi, (mx or hi)) + 1 and p <= hi * 2 + 2}
    if scheme == "bsdi_crypt":
        pts = {p | 1 for p in pts} | {p for p in pts if p % 2 == 0 and p >= 2}
    return sorted(pts)[:8]


@oracle(PROPERTY, "policy")
def o_policy(rec: Recorder, case, soft=False):
    """case: {config, probes:[[scheme, rounds, i]...]}"""
    from passlib.context import CryptContext

    cfg = case["config"]
    try:
        model = Model(cfg)
        for s in model.names:
            for cat in [None] + sorted(model.cats):
                model.rounds_window(s, cat)
        must_raise = False
    except ConfigError as e:
        must_raise = str(e)
    st, ctx = call(lambda: CryptContext(**cfg))
    if must_raise:
        if st == "ok":
            rec.fail("C04/inconsistent-config-accepted", f"a configuration the documented rules make inconsistent ({must_raise}) is accepted", "policy", case, None, "ValueError", soft=soft)
        else:
            rec.count("config:must-raise")
        return
    if st == "err":
        rec.fail(f"C04/valid-config-rejected/{type(ctx).__name__}", "a configuration that is consistent per the documented rules is rejected", "policy", case, repr(ctx), "accepted", soft=soft)
        return
    cats = ctxgen.categories_for(cfg)
    if tuple(ctx.schemes()) != tuple(model.names):
        rec.fail("C04/schemes", "schemes() differs from the configured list", "policy", case, ctx.schemes(), model.names, soft=soft)
        return
    # new hashes: default scheme + configured cost, never needing an update
    for cat in cats:
        dflt = model.default_scheme(cat)
        if ctx.default_scheme(category=cat) != dflt:
            rec.fail("C04/default-scheme", f"default_scheme(category={cat!r}) differs from the model", "policy", dict(case, category=cat), ctx.default_scheme(category=cat), dflt, soft=soft)
            return
        if table.T[dflt].disabled:
            continue
        st, h = call(ctx.hash, PW, category=cat)
        if st == "err":
            rec.fail(f"C04/hash-raises/{type(h).__name__}", "hash() raises under a valid configuration", "policy", dict(case, category=cat), repr(h), None, soft=soft)
            return
        if model.owner(h) != dflt or ctx.identify(h, category=cat) != dflt:
            rec.fail("C04/new-hash-scheme", f"hash(category={cat!r}) is not a hash of the category's default scheme", "policy", dict(case, category=cat), [h, ctx.identify(h)], dflt, soft=soft)
            return
        w = model.rounds_window(dflt, model.cat_of(cat))
        if w is not None and dflt == "bsdi_crypt" and w[0] and w[1] and w[0] == w[1] and w[0] % 2 == 0:
            # a window holding a single even value contradicts bsdi_crypt's documented odd-rounds rule
            # (the library warns about it): no hash can satisfy both, nothing to judge
            rec.count("bsdi-even-only-window")
            continue
        if w is not None:
            mn, mx, df, vary = w
            r = ctxmodel.parsed_rounds(dflt, h)
            want = df
            if dflt in ("bsdi_crypt",) and want is not None:
                pass
            ok = True
            if not vary:
                if dflt == "bsdi_crypt":
                    ok = r % 2 == 1 and abs(r - want) <= 1  # documented: generated rounds are made odd
                else:
                    ok = r == want
            else:
                ok = (not mn or r >= mn) and (not mx or r <= mx)
            if not ok:
                rec.fail(f"C04/new-hash-cost/{dflt}", f"hash(category={cat!r}) does not carry the configured cost", "policy", dict(case, category=cat), r, {"default": want, "min": mn, "max": mx, "vary": vary}, soft=soft)
                return
            if (mn and r < mn) or (mx and r > mx):
                rec.fail(f"C04/new-hash-outside-window/{dflt}", f"hash(category={cat!r}) has a cost outside the configured window", "policy", dict(case, category=cat), r, [mn, mx], soft=soft)
                return
        if ctx.verify(PW, h, category=cat) is not True or ctx.verify("wrong", h, category=cat) is not False:
            rec.fail("C04/new-hash-verify", "a fresh hash does not verify its password (or verifies a wrong one)", "policy", dict(case, category=cat), h, None, soft=soft)
            return
        if ctx.needs_update(h, category=cat) is not False:
            rec.fail(f"C04/fresh-needs-update/{dflt}", f"a hash the context has just produced (category={cat!r}) needs an update under the same context and category", "policy", dict(case, category=cat), h, False, soft=soft)
            return
    # probes: hashes from every scheme at costs around the window
    nontrivial = False
    for scheme, rounds, i in case["probes"]:
        if table.T[scheme].disabled or table.T[scheme].plaintext:
            continue
        h = make_hash(scheme, rounds, i)
        owner = model.owner(h)
        # the stored hash may be handed in as ASCII bytes: every decision is the one made for the text form
        hb = h.encode("ascii")
        for label, fn in (("identify", lambda x: ctx.identify(x)), ("needs_update", lambda x: ctx.needs_update(x)), ("verify", lambda x: ctx.verify(PW, x)),
                          ("verify-wrong", lambda x: ctx.verify("wrong", x)), ("verify_and_update", lambda x: (lambda r: (r[0], r[1] is None))(ctx.verify_and_update(PW, x)))):
            a, b = call(fn, h), call(fn, hb)
            if a[0] == "ok" and (b[0] == "err" or a[1] != b[1]):
                rec.fail(f"C04/bytes-hash/{label}", f"CryptContext.{label}() decides differently for the ASCII-bytes form of a hash", "policy", dict(case, probe=[scheme, rounds, i]), repr(b[1])[:120], repr(a[1])[:120], soft=soft)
                return
        for cat in cats:
            got = ctx.identify(h, category=cat)
            if got != owner:
                rec.fail("C04/attribution", "identify() is not the first configured scheme that claims the hash", "policy", dict(case, probe=[scheme, rounds, i], category=cat), got, owner, soft=soft)
                return
            flag = ctxmodel.scheme_flag(owner, h)
            want_nu = model.needs_update(h, cat, flag)
            st, nu = call(ctx.needs_update, h, category=cat)
            if st == "err" or nu is not want_nu:
                why = "deprecated" if model.is_deprecated(owner, cat) else "window/flag"
                rec.fail(f"C04/needs-update/{owner}/{'missed' if want_nu else 'spurious'}", f"needs_update(category={cat!r}) is {nu!r}, policy says {want_nu} ({why})", "policy",
                         dict(case, probe=[scheme, rounds, i], category=cat), [h, repr(nu)], want_nu, soft=soft)
                return
            for pw, right in ((PW, True), ("wrong", False)):
                st, res = call(ctx.verify_and_update, pw, h, category=cat)
                if st == "err":
                    rec.fail("C04/verify-and-update-raises", "verify_and_update raises", "policy", dict(case, probe=[scheme, rounds, i], category=cat), repr(res), None, soft=soft)
                    return
                ok, new = res
                if ok is not right or (not right and new is not None):
                    rec.fail("C04/verify-and-update-verdict", "verify_and_update verdict differs from verify()", "policy", dict(case, probe=[scheme, rounds, i], category=cat), res, right, soft=soft)
                    return
                if right:
                    dflt = model.default_scheme(cat)
                    dw = model.rounds_window(dflt, model.cat_of(cat)) if dflt == "bsdi_crypt" else None
                    if dw and dw[0] and dw[0] == dw[1] and dw[0] % 2 == 0:
                        rec.count("bsdi-even-only-window")
                        continue
                    if want_nu and not table.T[dflt].disabled:
                        if new is None:
                            rec.fail("C04/no-rehash", "verify_and_update does not return a replacement for a hash that needs updating", "policy", dict(case, probe=[scheme, rounds, i], category=cat), res, "(True, new)", soft=soft)
                            return
                        if model.owner(new) != dflt or ctx.verify(PW, new, category=cat) is not True or ctx.needs_update(new, category=cat) is not False:
                            rec.fail("C04/bad-rehash", "the replacement hash is not a default-scheme hash verifying the password and needing no update", "policy", dict(case, probe=[scheme, rounds, i], category=cat), new, dflt, soft=soft)
                            return
                        ok2, new2 = ctx.verify_and_update(PW, new, category=cat)
                        if ok2 is not True or new2 is not None:
                            rec.fail("C04/no-fixed-point", "verify_and_update does not reach a fixed point after one update", "policy", dict(case, probe=[scheme, rounds, i], category=cat), [ok2, new2], (True, None), soft=soft)
                            return
                    elif not want_nu and new is not None:
                        rec.fail("C04/spurious-rehash", "verify_and_update returns a replacement for a hash that needs no update", "policy", dict(case, probe=[scheme, rounds, i], category=cat), res, "(True, None)", soft=soft)
                        return
            if len(model.names) >= 2 and (owner != model.default_scheme(cat) or want_nu):
                nontrivial = True
    return nontrivial


ORACLES = {"policy": o_policy}


def t_policy(rec, seed, tier, shard):
    from hypothesis import strategies as st

    n = {"quick": 300, "thorough": 3000}[tier]

    @st.composite
    def cases(draw):
        cfg = draw(ctxgen.configs())
        probes = []
        try:
            m = Model(cfg)
            for s in m.names:
                if table.T[s].disabled or table.T[s].plaintext:
                    continue
                pts = []
                for cat in [None] + sorted(m.cats):
                    pts += cost_points(m, s, cat)
                pts = sorted(set(pts), key=lambda x: (x is None, x))
                k = draw(st.integers(1, min(3, len(pts))))
                for r in draw(st.lists(st.sampled_from(pts), min_size=k, max_size=k, unique=True)):
                    probes.append([s, r, draw(st.integers(0, 5))])
        except ConfigError:
            pass
        return {"config": cfg, "probes": probes}

    def body(case):
        rec.ev()
        cfg = case["config"]
        has_policy = any("__" in k for k in cfg) or "deprecated" in cfg
        rec.count(f"config:{len(cfg['schemes'])}-schemes:{'cats' if any(k.count('__') == 2 for k in cfg) else 'flat'}")
        rec.sample("config", case)
        nt = o_policy(rec, case)
        if nt and has_policy:
            rec.nt(sorted((k, repr(v)) for k, v in cfg.items()), tuple(map(tuple, case["probes"])))

    hyp_campaign(rec, body, cases(), n, seed + shard, shrink_budget=25)


def t_directed(rec, seed, tier):
    """hand-picked boundary configurations (documented examples and the hard-limit edges)"""
    cases = [
        {"config": {"schemes": ["bsdi_crypt"], "bsdi_crypt__max_rounds": 200, "bsdi_crypt__default_rounds": 200}, "probes": [["bsdi_crypt", 199, 0], ["bsdi_crypt", 201, 0], ["bsdi_crypt", 200, 0]]},
        {"config": {"schemes": ["bsdi_crypt", "des_crypt"], "bsdi_crypt__rounds": 100, "deprecated": ["des_crypt"]}, "probes": [["des_crypt", None, 0], ["bsdi_crypt", 101, 0], ["bsdi_crypt", 99, 0]]},
        {"config": {"schemes": ["sha256_crypt", "md5_crypt"], "deprecated": ["auto"], "sha256_crypt__rounds": 1000}, "probes": [["md5_crypt", None, 0], ["sha256_crypt", 1000, 0], ["sha256_crypt", 1001, 0]]},
        {"config": {"schemes": ["sha256_crypt", "md5_crypt"], "deprecated": ["auto"], "sha256_crypt__rounds": 1200, "admin__context__default": "md5_crypt"}, "probes": [["md5_crypt", None, 0], ["sha256_crypt", 1200, 0]]},
        {"config": {"schemes": ["pbkdf2_sha256"], "pbkdf2_sha256__min_rounds": 10, "pbkdf2_sha256__max_rounds": 20, "pbkdf2_sha256__default_rounds": 15, "admin__pbkdf2_sha256__min_rounds": 18, "admin__pbkdf2_sha256__default_rounds": 19},
         "probes": [["pbkdf2_sha256", 9, 0], ["pbkdf2_sha256", 10, 0], ["pbkdf2_sha256", 17, 0], ["pbkdf2_sha256", 18, 0], ["pbkdf2_sha256", 20, 0], ["pbkdf2_sha256", 21, 0]]},
        {"config": {"schemes": ["sha256_crypt"], "sha256_crypt__rounds": 1}, "probes": [["sha256_crypt", 1000, 0], ["sha256_crypt", 1001, 0]]},
        {"config": {"schemes": ["phpass", "md5_crypt"], "phpass__rounds": "8", "default": "phpass", "staff__context__deprecated": ["phpass"], "staff__context__default": "md5_crypt"}, "probes": [["phpass", 7, 0], ["phpass", 8, 1], ["md5_crypt", None, 0]]},
    ]
    if table.available("bcrypt"):
        cases.append({"config": {"schemes": ["bcrypt", "md5_crypt"], "bcrypt__rounds": 4, "deprecated": ["md5_crypt"]}, "probes": [["bcrypt", 4, 0], ["bcrypt", 4, 1], ["bcrypt", 5, 2], ["md5_crypt", None, 0]]})
    for case in cases:
        rec.ev()
        rec.nt("directed", sorted((k, repr(v)) for k, v in case["config"].items()))
        rec.sample("directed", case)
        o_policy(rec, case, soft=True)


def tasks(tier):
    ts = [{"name": f"policy-{i:02d}", "fn": "t_policy", "kw": {"shard": i}} for i in range(14 if tier == "quick" else 16)]
    ts.append({"name": "directed", "fn": "t_directed"})
    return ts
