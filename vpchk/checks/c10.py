"""C10 -- context config survives export/import; a failed change changes nothing."""

from __future__ import annotations

import hashlib

from .. import ctxmodel
from ..common import Recorder, Violation, call, hyp_campaign, hyp_machine, machine_fail, machine_guard, oracle
from ..ctxmodel import ConfigError, Model
from ..gens import ctxgen, table
from .c04 import PW, make_hash

PROPERTY = "C10"
LEVEL = "fault_enumeration"
RULE = (
    "Configurations from the C04 generator (categories, float/percent vary_rounds, string-typed numbers) plus custom unregistered "
    "hashers; histories (rule-based machine) of load(dict|ini|ctx), update(**k), update({}), copy(), copy(**k), "
    "to_dict->CryptContext(**d), to_string->from_string; fault sequences: every kind of invalid change (unknown scheme, unknown "
    "option, forbidden salt, default in deprecated, deprecated not in schemes, all schemes deprecated, out-of-range value for a "
    "strict option, wrong types, 4-part key, empty key parts, duplicate scheme) inserted at EVERY position of the change dict, and a "
    "FaultyHasher (custom PasswordHash whose using() raises at its k-th call, k = 1..number of (scheme, category) records) placed "
    "at EVERY scheme position. Oracle: observation function Obs(ctx) = (to_dict(), to_string(), schemes(), default_scheme(c) for "
    "all c, and for a bank of hashes x categories: identify, needs_update, verify right/wrong, cost of hash() output, dummy_verify, "
    "context keyword stripping). Export/import/copy/empty update => Obs equal; update(k) => to_dict() == old dict overlaid with "
    "exactly k; failed load/update (any exception) => Obs(after) == Obs(before). Non-trivial = export round trip of a config with "
    ">=1 category and >=1 scheme option; or a fault that raises after at least one record was already built (k>=2 or the offending "
    "item not first)."
)
ASSUMPTIONS = [
    "unregistered hashers cannot survive to_string (documented NOTE in the output): only to_dict(resolve=True)/copy are asserted for them",
    "INI export renders floats with two decimals and lower-cases keys (ConfigParser): generated vary_rounds floats have <=2 decimals and category names are lower case",
]
LEVEL_TEXT = (
    "Fault enumeration: every failure position of the multi-step rebuild inside load()/update() is enumerated -- every kind of "
    "invalid item at every position of the change, and a hasher whose customisation raises at every k-th call at every scheme "
    "position -- and the full observable behaviour of the context is compared before and after; plus generated export/import "
    "histories."
)
LEVEL_NOTE = "Trusted: the observation function (public API only), Hypothesis; 'any exception' counts as failure of the change."
TECHNIQUE = "fault enumeration over change positions and failing customisation calls + Hypothesis rule-based histories, compared through an observation function"
#: thorough tier: seed-dependent tasks are repeated under this many derived seeds (run.py); the listed task functions enumerate fixed domains
THOROUGH_REPS = 5
DETERMINISTIC_FNS = ('t_faults', 't_faulty', 't_custom')
RULE += " The generator also yields the global settings vary_rounds / truncate_error in both spellings, vary_rounds values on the float/int boundary of the INI renderer and beyond two decimals, a context-keyword scheme (user=), a custom unregistered hasher at every position, and edits of the dictionary returned by to_dict()."
ASSUMPTIONS = [('generated category names are lower case; the one directed upper-case category case is the recorded open finding (INI option names are case-folded)' if a.startswith('INI export renders floats with') or 'INI export renders floats with' in a else a) for a in ASSUMPTIONS]

CATS = [None, "admin", "staff", "guest"]


def bank_for(cfg):
    """hashes to observe decisions on (made once per config, outside the context)"""
    out = []
    names = [s for s in cfg["schemes"] if isinstance(s, str)]
    for s in names[:4]:
        if table.T[s].disabled or table.T[s].plaintext:
            continue
        if s == "postgres_md5":
            out.append(table.handler(s).hash(PW, user="someone"))
            continue
        win = ctxgen.POOL.get(s)
        pts = [None] if not win else [win[0] | (1 if s == "bsdi_crypt" else 0), (win[0] + win[1]) // 2 | (1 if s == "bsdi_crypt" else 0)]
        for r in pts:
            out.append(make_hash(s, r))
    out.append(make_hash("md5_crypt", None))
    out.append("$unknown$hash")
    return out


def observe(ctx, bank, cheap=True):
    """everything a user can see of a context"""
    obs = {}
    st, d = call(ctx.to_dict)
    # (a sequence option given as a tuple is the same option as the list)
    obs["to_dict"] = repr(sorted(((k, list(v) if isinstance(v, tuple) else v) for k, v in d.items()), key=lambda kv: kv[0])) if st == "ok" else ("ERR", type(d).__name__)
    st, s = call(ctx.to_string)
    obs["to_string"] = s if st == "ok" else ("ERR", type(s).__name__)
    st, v = call(lambda: tuple(ctx.schemes()))
    obs["schemes"] = v if st == "ok" else ("ERR", type(v).__name__)
    for c in CATS:
        st, v = call(ctx.default_scheme, category=c)
        obs[f"default:{c}"] = v if st == "ok" else ("ERR", type(v).__name__)
    for i, h in enumerate(bank):
        for c in CATS[:3]:
            row = []
            for fn in (lambda: ctx.identify(h, category=c), lambda: ctx.needs_update(h, category=c), lambda: ctx.verify(PW, h, category=c), lambda: ctx.verify("wrong", h, category=c)):
                st, v = call(fn)
                row.append(v if st == "ok" else ("ERR", type(v).__name__))
            obs[f"bank{i}:{c}"] = tuple(row)
    if cheap and obs["schemes"] and obs["schemes"][0] != "ERR":
        for c in CATS[:3]:
            st, h = call(ctx.hash, PW, category=c)
            if st == "ok":
                sch = ctx.identify(h, category=c)
                try:
                    r = ctxmodel.parsed_rounds(sch, h) if sch in table.T else None
                except Exception:  # noqa: BLE001
                    r = "?"
                # rounds may legitimately vary inside a window when vary_rounds is set: record only the scheme then
                obs[f"hash:{c}"] = (sch, r if "vary_rounds" not in repr(obs["to_dict"]) else "*")
            else:
                obs[f"hash:{c}"] = ("ERR", type(h).__name__)
        st, v = call(ctx.dummy_verify)
        obs["dummy_verify"] = v if st == "ok" else ("ERR", type(v).__name__)
    # context keywords (user=): passed on to the schemes that take them, silently dropped for the others when some scheme of the context takes them
    for c in CATS[:2]:
        st, h = call(ctx.hash, PW, category=c, user="someone")
        obs[f"hash/user:{c}"] = (ctx.identify(h), ctx.verify(PW, h, user="someone")) if st == "ok" else ("ERR", type(h).__name__)
    for i, h in enumerate(bank[:3]):
        row = []
        for fn in (lambda: ctx.verify(PW, h, user="someone"), lambda: ctx.verify_and_update(PW, h, user="someone")[0], lambda: ctx.needs_update(h)):
            st, v = call(fn)
            row.append(v if st == "ok" else ("ERR", type(v).__name__))
        obs[f"bank{i}/user"] = tuple(row)
    return obs


def diff(a, b):
    return {k: (a.get(k), b.get(k)) for k in sorted(set(a) | set(b), key=str) if a.get(k) != b.get(k)}


def model_ok(cfg):
    """the documented rules (ctxmodel) accept this configuration, every (scheme, category) window included"""
    try:
        m = Model(cfg)
        for sch in m.names:
            for cat in [None] + sorted(m.cats):
                m.rounds_window(sch, cat)
    except ConfigError:
        return False
    return True


def mk(cfg):
    from passlib.context import CryptContext

    return CryptContext(**cfg)


# ---- faulty hasher ---------------------------------------------------------------------------------------
def faulty_hasher(fail_at):
    """custom PasswordHash whose using() raises at its `fail_at`-th call (1-based); counts calls"""
    import passlib.utils.handlers as uh

    class faulty_hash(uh.StaticHandler):
        name = "faulty_hash"
        _hash_prefix = "$faulty$"
        checksum_chars = uh.LOWER_HEX_CHARS
        checksum_size = 32
        calls = 0
        fail_at = 0

        @classmethod
        def using(cls, **kwds):
            faulty_hash.calls += 1
            if faulty_hash.fail_at and faulty_hash.calls >= faulty_hash.fail_at:
                raise RuntimeError(f"customisation failed at call {faulty_hash.calls}")
            return super().using(**kwds)

        def _calc_checksum(self, secret):
            if isinstance(secret, str):
                secret = secret.encode("utf-8")
            return hashlib.md5(secret).hexdigest()

    faulty_hash.fail_at = fail_at
    return faulty_hash


INVALID_ITEMS = [
    ("unknown-scheme", {"schemes": ["md5_crypt", "no_such_scheme"]}),
    ("unknown-option", {"md5_crypt__no_such_option": 5}),
    ("forbidden-salt", {"md5_crypt__salt": "abcd"}),
    ("forbidden-salt-all", {"all__salt": "abcd"}),
    ("default-not-in-schemes", {"default": "no_such_scheme"}),
    ("deprecated-not-in-schemes", {"deprecated": ["no_such_scheme"]}),
    ("default-deprecated", "SPECIAL"),
    ("category-default-deprecated", "SPECIAL"),
    ("all-deprecated", "SPECIAL"),
    ("rounds-not-int", {"sha256_crypt__rounds": "many", "schemes": ["sha256_crypt", "md5_crypt"]}),
    ("min-above-max", {"sha256_crypt__min_rounds": 3000, "sha256_crypt__max_rounds": 2000, "schemes": ["sha256_crypt", "md5_crypt"]}),
    ("default-below-min", {"sha256_crypt__min_rounds": 3000, "sha256_crypt__default_rounds": 2000, "schemes": ["sha256_crypt", "md5_crypt"]}),
    ("vary-negative", {"sha256_crypt__vary_rounds": -1, "sha256_crypt__default_rounds": 2000, "schemes": ["sha256_crypt", "md5_crypt"]}),
    ("four-part-key", {"a__b__c__d": 1}),
    ("empty-key-part", {"__md5_crypt__salt_size": 4}),
    ("empty-option", {"md5_crypt__": 4}),
    ("duplicate-scheme", {"schemes": ["md5_crypt", "md5_crypt"]}),
    ("schemes-wrong-type", {"schemes": 5}),
    ("scheme-object-not-hasher", {"schemes": ["md5_crypt", object()]}),
    ("category-scheme-unknown", {"admin__no_such_scheme__rounds": 5}),
    ("bad-ident", {"bcrypt__ident": "zz", "schemes": ["bcrypt", "md5_crypt"]}),
    ("salt-size-too-big-strict", {"des_crypt__salt_size": 99, "schemes": ["des_crypt", "md5_crypt"]}),
]


MUST_REFUSE = {"unknown-scheme", "default-not-in-schemes", "deprecated-not-in-schemes", "default-deprecated", "category-default-deprecated", "all-deprecated", "duplicate-scheme",
               "forbidden-salt", "forbidden-salt-all", "four-part-key", "schemes-wrong-type", "scheme-object-not-hasher"}


def invalid_change(kind, base_cfg):
    names = list(base_cfg["schemes"])
    if kind == "default-deprecated":
        return {"default": names[0], "deprecated": [names[0]]}
    if kind == "category-default-deprecated":
        return {"staff__context__default": names[-1], "staff__context__deprecated": [names[-1]]}
    if kind == "all-deprecated":
        return {"deprecated": list(names), "default": None} if False else {"deprecated": list(names)}
    return dict(next(v for k, v in INVALID_ITEMS if k == kind))


@oracle(PROPERTY, "roundtrip")
def o_roundtrip(rec: Recorder, case, soft=False):
    """case: {config, via: dict|string|copy|empty-update|load-ctx|load-string|copy-kw}"""
    cfg, via = case["config"], case["via"]
    if case.get("tuples"):
        cfg = {k: (tuple(v) if isinstance(v, list) else v) for k, v in cfg.items()}  # sequences may be given as tuples
    try:
        Model(cfg)
        for s in Model(cfg).names:
            for cat in [None] + sorted(Model(cfg).cats):
                Model(cfg).rounds_window(s, cat)
    except ConfigError:
        rec.count("config:invalid-skipped")
        return
    st, ctx = call(mk, cfg)
    if st == "err":
        rec.fail(f"C10/valid-config-rejected/{type(ctx).__name__}", "a configuration that is consistent per the documented rules is rejected", "roundtrip", case, repr(ctx), "accepted", soft=soft)
        return
    bank = bank_for(cfg)
    before = observe(ctx, bank)
    from passlib.context import CryptContext

    if via == "dict":
        st, other = call(lambda: CryptContext(**ctx.to_dict()))
    elif via == "dict-resolve":
        st, other = call(lambda: CryptContext(**ctx.to_dict(resolve=True)))
    elif via == "string":
        st, other = call(lambda: CryptContext.from_string(ctx.to_string()))
    elif via == "string-section":
        st, other = call(lambda: CryptContext.from_string(ctx.to_string(section="custom"), section="custom"))
    elif via == "copy":
        st, other = call(ctx.copy)
    elif via == "empty-update":
        st, other = call(lambda: (ctx.update({}), ctx.update(), ctx)[-1])
    elif via == "load-ctx":
        st, other = call(lambda: (lambda c: (c.load(ctx), c)[-1])(CryptContext(["md5_crypt"])))
    elif via == "load-string":
        st, other = call(lambda: (lambda c: (c.load(ctx.to_string()), c)[-1])(CryptContext(["des_crypt"])))
    elif via == "load-mapping":
        # "a dict object, or compatible Mapping": a read-only view and a layered mapping of the exported dictionary
        import collections
        import types

        d0 = ctx.to_dict()
        half = dict(list(d0.items())[: len(d0) // 2])
        st, other = call(lambda: (lambda c: (c.load(types.MappingProxyType(d0)), c.load(collections.ChainMap({}, half, d0)), c)[-1])(CryptContext(["des_crypt"])))
    elif via in ("load-bytes-latin-1", "load-bytes-utf-16"):
        enc = via[len("load-bytes-"):]
        text = "# r\xe8gles de s\xe9curit\xe9\n" + ctx.to_string()
        st, other = call(lambda: (lambda c: (c.load(text.encode(enc), encoding=enc), c)[-1])(CryptContext(["des_crypt"])))
    else:
        st, other = call(lambda: (lambda c: (c.load(ctx.to_dict()), c)[-1])(CryptContext()))
    if st == "err":
        rec.fail(f"C10/export-not-loadable/{via}", f"the configuration exported via {via} cannot be loaded", "roundtrip", case, repr(other), None, soft=soft)
        return
    after = observe(other, bank)
    d = diff(before, after)
    if d:
        k = sorted(d, key=str)[0]
        upper = any(k2.count("__") == 2 and k2.split("__")[0] != k2.split("__")[0].lower() for k2 in cfg) and via in ("string", "string-section", "load-string")
        rec.fail(f"C10/roundtrip-differs/{via}/{'uppercase-category' if upper else str(k).split(':')[0]}", f"a context rebuilt via {via} does not have the same exported configuration / decisions", "roundtrip", case, {str(x): repr(d[x][1])[:120] for x in list(d)[:3]}, {str(x): repr(d[x][0])[:120] for x in list(d)[:3]}, soft=soft)
        return
    if observe(ctx, bank) != before:
        rec.fail(f"C10/export-mutates/{via}", "exporting / copying changed the original context", "roundtrip", case, None, None, soft=soft)
        return
    # the exported dictionary belongs to the caller: editing it must not reach back into the context
    for resolve in (False, True):
        d = ctx.to_dict(resolve=resolve)
        for v in d.values():
            if isinstance(v, list):
                v.append("hex_md5")
                v.reverse()
        d["schemes"] = []
        if observe(ctx, bank) != before:
            rec.fail("C10/export-aliases-internal-state", "editing the dictionary returned by to_dict() changes the context", "roundtrip", case, None, None, soft=soft)
            return


def ini_text(change):
    """INI rendering of a change dict (None when a value has no INI spelling)"""
    lines = ["[passlib]"]
    for k, v in change.items():
        if isinstance(v, (list, tuple)):
            if not all(isinstance(x, str) for x in v):
                return None
            v = ", ".join(v)
        elif not isinstance(v, (str, int, float, bool)):
            return None
        lines.append(f"{k} = {str(v).replace('%', '%%')}")
    return "\n".join(lines) + "\n"


@oracle(PROPERTY, "update_overlay")
def o_update(rec: Recorder, case, soft=False):
    """update(k) replaces exactly the given keys"""
    cfg, change = case["config"], case["change"]
    merged = dict(cfg)
    for k in change:  # 'vary_rounds' and 'all__vary_rounds' (same for truncate_error) are two spellings of one key
        base = k[5:] if k.startswith("all__") else k
        if base in ("vary_rounds", "truncate_error"):
            merged.pop(base, None)
            merged.pop("all__" + base, None)
    merged.update(change)
    try:
        m = Model(merged)
        for s in m.names:
            for cat in [None] + sorted(m.cats):
                m.rounds_window(s, cat)
        Model(cfg)
    except ConfigError:
        rec.count("update:model-invalid-skipped")
        return
    st, ctx = call(mk, cfg)
    if st == "err":
        return
    st, fresh = call(mk, merged)
    if st == "err":
        rec.count("update:merged-rejected")
        return
    how = case.get("how", "kw")
    call(ctx.dummy_verify)  # the context has been in use (lazily built helpers exist) before it is changed
    call(ctx.hash, PW)
    target = ctx
    if how == "kw":
        st, r = call(ctx.update, **change)
    elif how == "dict":
        st, r = call(ctx.update, dict(change))
    elif how == "load-update":
        st, r = call(ctx.load, dict(change), update=True)
    elif how in ("using", "copy-kw"):
        # copy(**k) and its documented alias using(**k): a NEW context with exactly the given keys replaced, the original untouched
        before_orig = observe(ctx, bank_for(cfg))
        st, r = call(ctx.using if how == "using" else ctx.copy, **change)
        target = r
        if st == "ok" and observe(ctx, bank_for(cfg)) != before_orig:
            rec.fail(f"C10/{how}-mutates-original", f"{how}(**k) changed the context it was called on", "update_overlay", case, None, None, soft=soft)
            return
    else:  # load_path(update=True): the change comes from an INI file
        import os
        import tempfile

        ini = ini_text(change)
        if ini is None:
            return
        fd, path = tempfile.mkstemp(prefix="vpchk-c10-", suffix=".cfg")
        try:
            with os.fdopen(fd, "w", encoding="utf-8") as fh:
                fh.write(ini)
            st, r = call(ctx.load_path, path, update=True)
        finally:
            os.unlink(path)
    if st == "err":
        rec.fail("C10/valid-update-rejected", f"{how} with a change that gives a valid configuration raises", "update_overlay", case, repr(r), None, soft=soft)
        return
    ctx = target
    bank = bank_for(merged)
    a, b = observe(ctx, bank), observe(fresh, bank)
    d = diff(a, b)
    if d:
        k = sorted(d, key=str)[0]
        rec.fail(f"C10/update-not-overlay/{str(k).split(':')[0]}", "after update(k) the context differs from one built from (old config overlaid with k)", "update_overlay", case, {str(x): repr(d[x][0])[:120] for x in list(d)[:3]}, {str(x): repr(d[x][1])[:120] for x in list(d)[:3]}, soft=soft)


@oracle(PROPERTY, "fault")
def o_fault(rec: Recorder, case, soft=False):
    """case: {config, kind, position, how}: invalid item `kind` placed at `position` among valid filler changes"""
    cfg, kind, pos, how = case["config"], case["kind"], case["position"], case["how"]
    st, ctx = call(mk, cfg)
    if st == "err":
        if not model_ok(cfg):
            rec.count("config:invalid-skipped")
            return
        rec.fail(f"C10/valid-config-rejected/{type(ctx).__name__}", "a configuration that is consistent per the documented rules is rejected", "fault", case, repr(ctx), "accepted", soft=soft)
        return
    bank = bank_for(cfg)
    before = observe(ctx, bank)
    bad = invalid_change(kind, cfg)
    fillers = [("md5_crypt__salt_size", 6), ("admin__context__default", cfg["schemes"][0] if isinstance(cfg["schemes"][0], str) else "md5_crypt"), ("staff__md5_crypt__salt_size", 5)]
    fillers = [f for f in fillers if "md5_crypt" in cfg["schemes"] or "md5_crypt" not in f[0]]
    items = list(fillers)
    for j, kv in enumerate(bad.items()):
        items.insert(min(pos + j, len(items)), kv)
    change = dict(items)
    if how == "update":
        st, r = call(ctx.update, **{k: v for k, v in change.items()}) if all(isinstance(k, str) and k.isidentifier() for k in change) else call(ctx.update, change)
    elif how == "load-update":
        st, r = call(ctx.load, change, update=True)
    elif how == "load":
        full = dict(cfg)
        full.update(change)
        st, r = call(ctx.load, full)
    else:
        full = dict(cfg)
        full.update(change)
        lines = ["[passlib]"]
        for k, v in full.items():
            lines.append(f"{k} = {', '.join(map(str, v)) if isinstance(v, (list, tuple)) else v}")
        st, r = call(ctx.load, "\n".join(lines))
    if st == "ok":
        # the property speaks about changes that FAIL; whether this particular item must be refused is not asserted here
        # (options for schemes that are not listed are ignored, relaxed clamping accepts out-of-range sizes, ...)
        rec.count(f"fault-not-refused:{kind}")
        if kind in MUST_REFUSE:
            # the kinds the property itself names as failing changes (inconsistent default/deprecated, unknown or duplicate scheme, forbidden salt,
            # malformed key, wrong type): accepting one leaves a context that contradicts its own policy
            rec.fail(f"C10/invalid-change-accepted/{kind}", f"a change the documented rules refuse ({kind}) is accepted by {how}", "fault", case, None, "ValueError/KeyError/TypeError", soft=soft)
        return
    after = observe(ctx, bank)
    d = diff(before, after)
    if d:
        k = sorted(d, key=str)[0]
        rec.fail(f"C10/failed-change-leaks/{how}/{str(k).split(':')[0]}", f"a failed {how} ({kind} at position {pos}: {type(r).__name__}) changed the context", "fault", case, {str(x): repr(d[x][1])[:100] for x in list(d)[:3]}, {str(x): repr(d[x][0])[:100] for x in list(d)[:3]}, soft=soft)


@oracle(PROPERTY, "faulty_hasher")
def o_faulty(rec: Recorder, case, soft=False):
    """case: {config, position, k, how}: a hasher whose using() raises at the k-th call, placed at scheme position"""
    cfg, pos, k, how = case["config"], case["position"], case["k"], case["how"]
    st, ctx = call(mk, cfg)
    if st == "err":
        return
    bank = bank_for(cfg)
    before = observe(ctx, bank)
    F = faulty_hasher(k)
    names = list(cfg["schemes"])
    names.insert(min(pos, len(names)), F)
    change = {"schemes": names, "admin__faulty_hash__deprecated": True} if False else {"schemes": names}
    if case.get("with_category"):
        change["admin__context__default"] = names[0] if isinstance(names[0], str) else "faulty_hash"
        change["staff__context__deprecated"] = ["faulty_hash"]
    F.calls = 0
    if how == "update":
        st, r = call(ctx.update, **change)
    elif how == "load":
        full = dict(cfg)
        full.update(change)
        st, r = call(ctx.load, full)
    else:
        st, r = call(ctx.copy, **change)
    raised_after_progress = F.calls >= 1
    if st == "ok":
        rec.count("faulty:not-reached")  # fewer customisation calls than k: the change succeeded, nothing to compare
        return raised_after_progress
    after = observe(ctx, bank)
    d = diff(before, after)
    if d:
        kk = sorted(d, key=str)[0]
        rec.fail(f"C10/failed-change-leaks/faulty-hasher/{how}/{str(kk).split(':')[0]}", f"a {how} that failed inside the {k}-th customisation call ({type(r).__name__}) changed the context", "faulty_hasher", case,
                 {str(x): repr(d[x][1])[:100] for x in list(d)[:3]}, {str(x): repr(d[x][0])[:100] for x in list(d)[:3]}, soft=soft)
    return raised_after_progress and (k >= 2 or pos > 0)


def custom_hasher():
    """a well-behaved custom hasher that is not in the registry"""
    import passlib.utils.handlers as uh

    class vp_custom_hash(uh.HasSalt, uh.GenericHandler):
        name = "vp_custom_hash"
        setting_kwds = ("salt", "salt_size")
        checksum_chars = uh.LOWER_HEX_CHARS
        checksum_size = 16
        min_salt_size = max_salt_size = 4
        salt_chars = uh.LOWER_HEX_CHARS
        ident = "$vpc$"

        @classmethod
        def from_string(cls, hash):
            hash = uh.to_unicode_for_identify(hash) if not isinstance(hash, str) else hash
            if not hash.startswith(cls.ident) or hash.count("$") != 3:
                raise uh.exc.InvalidHashError(cls)
            salt, chk = hash[len(cls.ident):].split("$")
            return cls(salt=salt, checksum=chk or None)

        def to_string(self):
            return f"{self.ident}{self.salt}${self.checksum or ''}"

        def _calc_checksum(self, secret):
            if isinstance(secret, str):
                secret = secret.encode("utf-8")
            return hashlib.md5(self.salt.encode("ascii") + secret).hexdigest()[:16]

    return vp_custom_hash


@oracle(PROPERTY, "custom_hasher")
def o_custom(rec: Recorder, case, soft=False):
    """case: {position, how, change}: a context holding a custom unregistered hasher object is copied / updated / exported with resolve=True;
    the result decides like a context built directly from the expected configuration"""
    from passlib.context import CryptContext

    custom = custom_hasher()
    names = ["md5_crypt", "sha256_crypt"]
    schemes = list(names)
    schemes.insert(case["position"], custom)
    base = {"schemes": schemes, "sha256_crypt__rounds": 1500, "deprecated": ["md5_crypt"]}
    change = dict(case["change"])
    ctx = CryptContext(**base)
    bank = [make_hash("md5_crypt", None), make_hash("sha256_crypt", 1500), make_hash("sha256_crypt", 1200), custom.hash(PW), "$unknown$hash"]
    before = observe(ctx, bank)
    how = case["how"]
    merged = dict(base)
    merged.update(change)
    expect = observe(CryptContext(**merged), bank)
    if how == "update":
        st, r = call(ctx.update, **change)
        other = ctx
    elif how == "load-update":
        st, r = call(ctx.load, dict(change), update=True)
        other = ctx
    elif how == "copy":
        st, other = call(ctx.copy, **change)
    elif how == "dict-resolve":
        st, other = call(lambda: CryptContext(**dict(ctx.to_dict(resolve=True), **change)))
    else:
        st, other = call(lambda: (lambda c: (c.load(ctx), c.update(**change), c)[-1])(CryptContext(["des_crypt"])))
    if st == "err":
        rec.fail(f"C10/custom-hasher/{how}-raises", f"{how} on a context holding a custom unregistered hasher raises", "custom_hasher", case, repr(other if how in ("copy", "dict-resolve", "load-ctx") else r), None, soft=soft)
        return
    d = diff(observe(other, bank), expect)
    if d:
        k = sorted(d, key=str)[0]
        rec.fail(f"C10/custom-hasher/{how}-differs", f"{how} on a context holding a custom unregistered hasher gives other decisions than the expected configuration", "custom_hasher", case,
                 {str(x): repr(d[x][0])[:120] for x in list(d)[:3]}, {str(x): repr(d[x][1])[:120] for x in list(d)[:3]}, soft=soft)
        return
    if how in ("copy", "dict-resolve", "load-ctx") and observe(ctx, bank) != before:
        rec.fail(f"C10/custom-hasher/{how}-mutates", "the original context changed", "custom_hasher", case, None, None, soft=soft)


def t_custom(rec, seed, tier):
    changes = [{}, {"sha256_crypt__rounds": 1200}, {"deprecated": ["auto"]}, {"default": "sha256_crypt"}, {"vp_custom_hash__salt_size": 4}, {"admin__context__default": "sha256_crypt"},
               {"deprecated": ["vp_custom_hash"]}, {"default": "vp_custom_hash"}]
    n = 0
    for pos in range(3):
        for how in ("update", "load-update", "copy", "dict-resolve", "load-ctx"):
            for ch in changes:
                if pos == 0 and ch.get("deprecated") == ["vp_custom_hash"]:
                    continue  # would deprecate the default scheme: invalid configuration
                rec.ev()
                rec.nt("custom", pos, how, sorted(ch))
                o_custom(rec, {"position": pos, "how": how, "change": ch}, soft=True)
                n += 1
    rec.sample("custom-hasher", {"positions": [0, 1, 2], "changes": len(changes)})
    rec.subrecord("custom-hasher", exhaustive=True, cases=n)


ORACLES = {"custom_hasher": o_custom, "roundtrip": o_roundtrip, "update_overlay": o_update, "fault": o_fault, "faulty_hasher": o_faulty}


# ---- tasks -------------------------------------------------------------------------------------------------
VIAS = ["dict", "dict-resolve", "string", "string-section", "copy", "empty-update", "load-ctx", "load-string", "load-dict", "load-mapping", "load-bytes-latin-1", "load-bytes-utf-16"]


def t_roundtrip(rec, seed, tier, shard):
    from hypothesis import strategies as st

    n = {"quick": 60, "thorough": 800}[tier]
    cases = st.fixed_dictionaries({"config": ctxgen.configs(catchall=False, extras=True), "via": st.sampled_from(VIAS), "tuples": st.sampled_from([False, False, True])})

    def body(case):
        rec.ev()
        cfg = case["config"]
        has_cat = any(k.count("__") == 2 for k in cfg)
        has_opt = any("__" in k for k in cfg)
        if has_cat and has_opt:
            rec.nt(case["via"], sorted((k, repr(v)) for k, v in cfg.items()))
        rec.count(f"roundtrip:{case['via']}")
        rec.sample(f"roundtrip:{case['via']}", case)
        o_roundtrip(rec, case)

    hyp_campaign(rec, body, cases, n, seed + shard, shrink_budget=20)
    if shard == 0:
        # directed: a user category spelled with capitals (INI option names are case-folded by the parser)
        for via in VIAS:
            rec.ev()
            if not via.startswith("load-bytes"):  # (the byte-string routes are the INI route again: same recorded finding, not repeated)
                o_roundtrip(rec, {"config": {"schemes": ["md5_crypt", "des_crypt"], "Admin__context__default": "des_crypt"}, "via": via}, soft=True)
            # a string option holding a percent sign (INI interpolation character)
            o_roundtrip(rec, {"config": {"schemes": ["md5_crypt", "unix_disabled"], "unix_disabled__marker": "!%locked%"}, "via": via}, soft=True)


def t_update(rec, seed, tier, shard):
    from hypothesis import strategies as st

    n = {"quick": 120, "thorough": 600}[tier]

    @st.composite
    def cases(draw):
        cfg = draw(ctxgen.configs(catchall=False, extras=True))
        if draw(st.integers(0, 3)) == 0:
            # keys taken from an unrelated configuration (often inconsistent with this one: the model decides, such cases are skipped)
            other = draw(ctxgen.configs(catchall=False, extras=True))
            keys = draw(st.lists(st.sampled_from(sorted(other)), min_size=1, max_size=3, unique=True))
            change = {k: other[k] for k in keys}
        else:
            # a change built for this configuration's own schemes
            names = [n for n in cfg["schemes"] if isinstance(n, str)]
            real = [n for n in names if n != "postgres_md5"] or names
            change = {}
            for kind in draw(st.lists(st.sampled_from(["rounds", "rounds", "default", "deprecated", "cat-default", "cat-rounds", "salt_size"]), min_size=1, max_size=3, unique=True)):
                costly = [n for n in names if ctxgen.POOL.get(n)]
                if kind == "rounds" and costly:
                    sch = draw(st.sampled_from(costly))
                    change.update({f"{sch}__{k}": v for k, v in draw(ctxgen.rounds_options(sch, allow_beyond=False)).items()})
                elif kind == "cat-rounds" and costly:
                    sch = draw(st.sampled_from(costly))
                    change.update({f"admin__{sch}__{k}": v for k, v in draw(ctxgen.rounds_options(sch, allow_beyond=False)).items()})
                elif kind == "default":
                    change["default"] = draw(st.sampled_from(real))
                elif kind == "deprecated" and len(names) > 1:
                    dflt = change.get("default", cfg.get("default"))
                    cand = [n for n in names if n != dflt] if dflt else names[1:]
                    change["deprecated"] = draw(st.one_of(st.just(["auto"]), st.lists(st.sampled_from(cand), min_size=1, max_size=len(cand), unique=True)))
                elif kind == "cat-default":
                    change["staff__context__default"] = draw(st.sampled_from(real))
                elif kind == "salt_size" and "md5_crypt" in names:
                    change["md5_crypt__salt_size"] = draw(st.integers(4, 8))
            if not change:
                change = {"default": real[0]}
        if draw(st.integers(0, 3)) == 0:
            # a documented global setting already present in the context is given again, in either spelling, with another value
            g = draw(st.sampled_from(["vary_rounds", "truncate_error"]))
            vals = ctxgen.GLOBAL_VARY_VALUES if g == "vary_rounds" else [True, False]
            for k in (g, "all__" + g):
                cfg.pop(k, None)
                change.pop(k, None)
            cfg[draw(st.sampled_from([g, "all__" + g]))] = draw(st.sampled_from(vals))
            change[draw(st.sampled_from([g, "all__" + g]))] = draw(st.sampled_from(vals))
        return {"config": cfg, "change": change, "how": draw(st.sampled_from(["kw", "kw", "dict", "load-update", "using", "copy-kw", "load_path-update", "load_path-update"]))}

    def body(case):
        rec.ev()
        rec.nt("update", sorted((k, repr(v)) for k, v in case["config"].items()), sorted((k, repr(v)) for k, v in case["change"].items()))
        rec.count(f"update:{case['how']}")
        rec.sample("update", case)
        o_update(rec, case)

    hyp_campaign(rec, body, cases(), n, seed + shard, shrink_budget=20)
    if shard == 0:
        # directed: the documented 'default__' spelling of the default category names the SAME keys as the unprefixed spelling
        from passlib.context import CryptContext

        for how in ("update", "ctor", "load-update", "copy"):
            rec.ev()
            base = {"schemes": ["sha256_crypt", "md5_crypt"], "sha256_crypt__min_rounds": 1000, "sha256_crypt__default_rounds": 1500}
            change = {"default__sha256_crypt__min_rounds": 1200, "default__sha256_crypt__default_rounds": 1300, "default__context__deprecated": ["md5_crypt"]}
            want = {"schemes": ["sha256_crypt", "md5_crypt"], "sha256_crypt__min_rounds": 1200, "sha256_crypt__default_rounds": 1300, "deprecated": ["md5_crypt"]}
            if how == "ctor":
                st, c = call(lambda: CryptContext(**dict(base, **change)))
            elif how == "copy":
                st, c = call(lambda: CryptContext(**base).copy(**change))
            else:
                c = CryptContext(**base)
                st, r = call(c.update, **change) if how == "update" else call(c.load, dict(change), update=True)
            got = c.to_dict() if st == "ok" else repr(c if how in ("ctor", "copy") else r)
            if got != want or (st == "ok" and (c.needs_update(make_hash("sha256_crypt", 1100)) is not True or c.needs_update(make_hash("md5_crypt", None)) is not True)):
                rec.fail(f"C10/default-category-alias/{how}", "keys spelled with the 'default__' category prefix do not replace / denote the unprefixed keys", "update_overlay",
                         {"config": base, "change": change, "how": {"update": "kw", "load-update": "load-update", "copy": "copy-kw", "ctor": "kw"}[how]}, got, want, soft=True)


BASES = [
    {"schemes": ["md5_crypt", "des_crypt"], "deprecated": ["des_crypt"]},
    {"schemes": ["sha256_crypt", "md5_crypt", "des_crypt"], "sha256_crypt__rounds": 1500, "admin__sha256_crypt__rounds": 2000, "deprecated": ["auto"]},
    {"schemes": ["md5_crypt", "postgres_md5", "sha256_crypt"], "sha256_crypt__default_rounds": 1500, "vary_rounds": 0.1, "truncate_error": True, "admin__context__default": "sha256_crypt"},
    {"schemes": ["pbkdf2_sha256", "md5_crypt"], "pbkdf2_sha256__min_rounds": 10, "pbkdf2_sha256__max_rounds": 50, "pbkdf2_sha256__default_rounds": 20, "staff__context__default": "md5_crypt"},
]


def t_faults(rec, seed, tier, base_index):
    """every kind of invalid change x every position x every way of applying it"""
    cfg = BASES[base_index]
    n = 0
    for kind, _ in INVALID_ITEMS:
        for pos in range(0, 4):
            for how in ("update", "load-update", "load", "load-ini"):
                if how == "load-ini" and kind in ("scheme-object-not-hasher", "schemes-wrong-type", "four-part-key", "empty-key-part", "empty-option"):
                    continue
                case = {"config": cfg, "kind": kind, "position": pos, "how": how}
                o_fault(rec, case, soft=True)
                n += 1
                if pos > 0:
                    rec.nt("fault", base_index, kind, pos, how)
        rec.sample("fault", {"config": cfg, "kind": kind, "positions": [0, 3]})
    rec.ev(n)
    rec.subrecord(f"faults:base{base_index}", exhaustive=True, cases=n)


def t_faulty(rec, seed, tier, base_index):
    """FaultyHasher at every scheme position x every k x every way"""
    cfg = BASES[base_index]
    n = 0
    nschemes = len(cfg["schemes"])
    for pos in range(0, nschemes + 1):
        for k in range(1, 6):
            for how in ("update", "load", "copy"):
                for wc in (False, True):
                    case = {"config": cfg, "position": pos, "k": k, "how": how, "with_category": wc}
                    nt = o_faulty(rec, case, soft=True)
                    n += 1
                    if nt:
                        rec.nt("faulty", base_index, pos, k, how, wc)
    rec.ev(n)
    rec.sample("faulty-hasher", {"config": cfg, "positions": [0, nschemes], "k": [1, 5]})
    rec.subrecord(f"faulty-hasher:base{base_index}", exhaustive=True, cases=n)


def t_hyp_faults(rec, seed, tier):
    from hypothesis import strategies as st

    n = {"quick": 150, "thorough": 2500}[tier]
    cases = st.fixed_dictionaries({
        "config": ctxgen.configs(catchall=False, max_schemes=3, extras=True), "kind": st.sampled_from([k for k, _ in INVALID_ITEMS]), "position": st.integers(0, 3),
        "how": st.sampled_from(["update", "load-update", "load"]),
    })

    def body(case):
        rec.ev()
        try:
            Model(case["config"])
        except ConfigError:
            return
        rec.nt("hyp-fault", sorted((k, repr(v)) for k, v in case["config"].items()), case["kind"], case["position"], case["how"])
        rec.count(f"hyp-fault:{case['kind']}")
        o_fault(rec, case)

    hyp_campaign(rec, body, cases, n, seed, shrink_budget=20)


def tasks(tier):
    ts = [{"name": f"roundtrip-{i}", "fn": "t_roundtrip", "kw": {"shard": i}} for i in range(5 if tier == "quick" else 8)]
    ts += [{"name": f"update-{i}", "fn": "t_update", "kw": {"shard": i}} for i in range(3 if tier == "quick" else 6)]
    for b in range(len(BASES)):
        ts.append({"name": f"faults-{b}", "fn": "t_faults", "kw": {"base_index": b}})
        ts.append({"name": f"faulty-hasher-{b}", "fn": "t_faulty", "kw": {"base_index": b}})
    ts.append({"name": "hyp-faults", "fn": "t_hyp_faults"})
    ts.append({"name": "custom-hasher", "fn": "t_custom"})
    return ts
