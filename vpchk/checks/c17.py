"""C17 -- every shipped context recognises the hashes of each of its own schemes."""

from __future__ import annotations

from ..common import Recorder, call, hyp_campaign, oracle
from ..gens import strategies as S
from ..gens import table
from .c02 import fixed_ctx

PROPERTY = "C17"
LEVEL = "exploration"
RULE = (
    "Contexts: passlib.apps.__all__ plus every context documented in docs/lib/passlib.apps.rst (django10/14/16/110/21/31, "
    "ldap(_nocrypt), mysql3/4, postgres, phpass, phpbb3, roundup10/15, custom_app), passlib.hosts.* incl. the host-dependent "
    "host_context, passlib.apache.htpasswd_context, every get_preset_config() name of the Django extension; x every scheme of the "
    "context x hashes made by that scheme's UNCONFIGURED handler over Hypothesis-generated settings (all idents/variants/optional "
    "fields, salt sizes, cheap cost, context keywords). Oracle: ctx.identify(h) == scheme, ctx.verify(p,h) True, ctx.verify(wrong,h) "
    "False, ctx.verify(h as password, h) False unless the scheme stores plaintext; disabled schemes identify their own output and "
    "verify False; registry: get_crypt_handler(n).name == n and passlib.hash.<n> is that object, for every registry name. "
    "Non-trivial = hash from a scheme that is not first in its context; distinct by (context, scheme, settings class)."
)
ASSUMPTIONS = [
    "apps.master_context is neither exported nor documented and deliberately lists mutually ambiguous formats: excluded",
    "passwords for catch-all schemes (plaintext family) are generated so that no other scheme of the context identifies them (they ARE the hash)",
    "argon2 schemes have no backend on this host: identify-only with literal strings",
]
LEVEL_TEXT = (
    "Enumeration of every shipped context and every scheme in it, with seeded generated hashes per scheme made outside the context, "
    "and an exact attribution/verification oracle; plus the complete registry name/object identity check."
)
LEVEL_NOTE = "Trusted: each scheme's own unconfigured handler as hash producer, Hypothesis."
TECHNIQUE = "enumeration of shipped contexts x schemes with Hypothesis-generated hashes and an attribution oracle"

APPS = ["custom_app_context", "django_context", "django10_context", "django14_context", "django16_context", "django110_context", "django21_context", "django31_context",
        "ldap_context", "ldap_nocrypt_context", "mysql_context", "mysql4_context", "mysql3_context", "phpass_context", "phpbb3_context", "postgres_context",
        "roundup10_context", "roundup15_context", "roundup_context"]
HOSTS = ["linux_context", "linux2_context", "openbsd_context", "netbsd_context", "freebsd_context", "host_context"]
PRESETS = ["passlib-default", "django-default", "django-latest", "django-1.0", "django-1.4", "django-1.6"]
ARGON2_SAMPLES = {"django_argon2": "argon2$argon2i$v=19$m=256,t=1,p=1$c29tZXNhbHQ$AJFIsNZTMKTAewB4+ETN1A", "argon2": "$argon2i$v=19$m=256,t=1,p=1$c29tZXNhbHQ$AJFIsNZTMKTAewB4+ETN1A"}


def get_context(cid):
    kind, name = cid.split(":", 1)
    if kind == "apps":
        import passlib.apps as m

        return getattr(m, name)
    if kind == "hosts":
        import passlib.hosts as m

        return getattr(m, name, None)
    if kind == "apache":
        import passlib.apache as m

        return m.htpasswd_context
    if kind == "django-preset":
        from passlib.context import CryptContext
        from passlib.ext.django.utils import get_preset_config

        return CryptContext.from_string(get_preset_config(name))
    raise KeyError(cid)


def all_context_ids():
    ids = [f"apps:{n}" for n in APPS] + [f"hosts:{n}" for n in HOSTS] + ["apache:htpasswd_context"] + [f"django-preset:{n}" for n in PRESETS]
    import passlib.apps
    import passlib.hosts

    for n in passlib.apps.__all__:
        if f"apps:{n}" not in ids:
            ids.append(f"apps:{n}")
    for n in passlib.hosts.__all__:
        if f"hosts:{n}" not in ids:
            ids.append(f"hosts:{n}")
    return ids


@oracle(PROPERTY, "attribution")
def o_attr(rec: Recorder, case, soft=False):
    """case: {context, scheme, settings, ctx_kw, secret}"""
    cid, scheme, settings, kw, secret = case["context"], case["scheme"], case["settings"], case["ctx_kw"], case["secret"]
    ctx = get_context(cid)
    f = table.T[scheme]
    h = table.handler(scheme)
    if not table.available(scheme):
        sample = ARGON2_SAMPLES.get(scheme)
        if sample:
            got = ctx.identify(sample)
            if got != scheme:
                rec.fail(f"C17/attribution/{cid}/{scheme}", f"{cid}: a {scheme} string is attributed to {got!r}", "attribution", case, got, scheme, soft=soft)
        rec.count("identify-only:no-backend")
        return
    hs = (h.using(**settings) if settings else h).hash(secret, **kw)
    got = ctx.identify(hs)
    if got != scheme:
        rec.fail(f"C17/attribution/{cid}/{scheme}", f"{cid}: a hash made by its scheme {scheme} is attributed to {got!r}", "attribution", case, got, scheme, soft=soft)
        return
    vkw = {k: v for k, v in kw.items()}
    st, r = call(ctx.verify, secret, hs, **vkw)
    want = not f.disabled
    if st == "err" or r is not want:
        rec.fail(f"C17/verify/{cid}/{scheme}", f"{cid}: verify() of the right password against a {scheme} hash is {r!r}", "attribution", case, repr(r), want, soft=soft)
        return
    wrong = ("Zq" if isinstance(secret, str) else b"Zq") + secret
    st, r = call(ctx.verify, wrong, hs, **vkw)
    if st == "err" or r is not False:
        if not (f.key(wrong, {}, kw) == f.key(secret, {}, kw)):
            rec.fail(f"C17/verify-wrong/{cid}/{scheme}", f"{cid}: verify() of a wrong password against a {scheme} hash is {r!r}", "attribution", case, repr(r), False, soft=soft)
            return
    if not f.plaintext:
        st, r = call(ctx.verify, hs, hs, **vkw)
        if st == "ok" and r is not False:
            rec.fail(f"C17/hash-as-password/{cid}/{scheme}", f"{cid}: the hash text itself verifies as the password", "attribution", case, r, False, soft=soft)


@oracle(PROPERTY, "registry")
def o_registry(rec: Recorder, case, soft=False):
    import passlib.hash
    from passlib import registry

    n = case["name"]
    h = registry.get_crypt_handler(n)
    if h.name != n:
        rec.fail(f"C17/registry-name/{n}", "registry name loads a hasher carrying another name", "registry", case, h.name, n, soft=soft)
        return
    if getattr(passlib.hash, n) is not h:
        rec.fail(f"C17/registry-identity/{n}", "passlib.hash.<name> is not the registry object", "registry", case, None, None, soft=soft)
        return
    if registry.get_crypt_handler(n.upper() if n.upper() != n else n, None) is not None and False:
        pass
    if n not in registry.list_crypt_handlers() or n not in dir(passlib.hash):
        rec.fail(f"C17/registry-listing/{n}", "name missing from list_crypt_handlers()/dir(passlib.hash)", "registry", case, None, None, soft=soft)


ORACLES = {"attribution": o_attr, "registry": o_registry}


def _plain_secret_ok(ctx, scheme, secret):
    """a plaintext 'hash' IS the password: only passwords no other scheme of the context claims are meaningful"""
    return ctx.identify(secret) == scheme


def t_context(rec, seed, tier, cid):
    from hypothesis import strategies as st

    ctx = get_context(cid)
    if ctx is None:
        rec.count("context-absent-on-host")
        return
    schemes = list(ctx.schemes())
    per = {"quick": 20, "thorough": 200}[tier]
    for idx, scheme in enumerate(schemes):
        f = table.T.get(scheme)
        if f is None:
            rec.fail(f"C17/unknown-scheme/{cid}/{scheme}", "context lists a scheme the format table does not know", "attribution", {"context": cid, "scheme": scheme}, None, None, soft=True)
            continue
        n = per if "bcrypt" not in scheme else max(2, per // 3)
        if not table.available(scheme):
            o_attr(rec, {"context": cid, "scheme": scheme, "settings": {}, "ctx_kw": {}, "secret": "pw"}, soft=True)
            continue

        @st.composite
        def cases(draw, scheme=scheme, f=f):
            settings = draw(S.settings(scheme))
            if "bcrypt" in scheme:
                settings["rounds"] = 4
            kw = {k: v for k, v in draw(S.contexts(scheme)).items() if k != "encoding"}
            secret = draw(st.sampled_from(["pässword", "pw", "correct horse", "x" * 30, "Tr0ub4dor&3"]))
            if f.maxlen:
                secret = secret[: f.maxlen // 2]
            if f.secret == "lm":
                secret = "password"
            return {"context": cid, "scheme": scheme, "settings": settings, "ctx_kw": kw, "secret": secret}

        def body(case, scheme=scheme, f=f, idx=idx):
            if f.plaintext and not f.salt and not _plain_secret_ok(ctx, scheme, case["secret"] if scheme != "roundup_plaintext" else "{plaintext}" + case["secret"]):
                rec.count("plaintext-password-claimed-by-other-scheme")
                return
            rec.ev()
            if idx > 0:
                rec.nt(cid, scheme, sorted((k, repr(v)) for k, v in case["settings"].items() if k != "salt"), len(case["settings"].get("salt", "") or "") if not isinstance(case["settings"].get("salt"), int) else 0)
            rec.count(f"attribution:{'first' if idx == 0 else 'later'}-scheme")
            if idx > 0:
                rec.sample(f"{cid}", case)
            o_attr(rec, case)

        hyp_campaign(rec, body, cases(), n, seed + idx, shrink_budget=10)
    rec.subrecord(f"context:{cid}", schemes=schemes)


def t_registry(rec, seed, tier):
    from passlib import registry

    names = registry.list_crypt_handlers()
    for n in names:
        rec.ev()
        rec.nt("registry", n)
        o_registry(rec, {"name": n}, soft=True)
    rec.sample("registry", {"names": len(names)})
    rec.subrecord("registry", exhaustive=True, names=len(names))


def tasks(tier):
    ts = [{"name": f"ctx-{cid}", "fn": "t_context", "kw": {"cid": cid}} for cid in all_context_ids()]
    ts.append({"name": "registry", "fn": "t_registry"})
    return ts
