"""C17 -- every shipped context recognises the hashes of each of its own schemes."""

from __future__ import annotations

from ..common import Recorder, call, hyp_campaign, oracle
from ..gens import strategies as S
from ..gens import table
from .c02 import fixed_ctx

PROPERTY = "C17"
LEVEL = "exploration"
RULE = (
    "Contexts: passlib.apps.__all__ plus every context documented in docs/lib/passlib.apps.rst (django10/14/16/110/21/31, "
    "ldap(_nocrypt), mysql3/4, postgres, phpass, phpbb3, roundup10/15, custom_app), passlib.hosts.* incl. the host-dependent "
    "host_context, passlib.apache.htpasswd_context, every get_preset_config() name of the Django extension; x every scheme of the "
    "context x hashes made by that scheme's UNCONFIGURED handler over Hypothesis-generated settings (all idents/variants/optional "
    "fields, salt sizes, cheap cost, context keywords). Oracle: ctx.identify(h) == scheme, ctx.verify(p,h) True, ctx.verify(wrong,h) "
    "False, ctx.verify(h as password, h) False unless the scheme stores plaintext; disabled schemes identify their own output and "
    "verify False; registry: get_crypt_handler(n).name == n and passlib.hash.<n> is that object, for every registry name. "
    "Non-trivial = hash from a scheme that is not first in its context; distinct by (context, scheme, settings class)."
)
ASSUMPTIONS = [
    "apps.master_context is neither exported nor documented and deliberately lists mutually ambiguous formats: excluded",
    "passwords for catch-all schemes (plaintext family) are generated so that no other scheme of the context identifies them (they ARE the hash)",
    "argon2 schemes have no backend on this host: identify-only with literal strings",
]
LEVEL_TEXT = (
    "Enumeration of every shipped context and every scheme in it, with seeded generated hashes per scheme made outside the context, "
    "and an exact attribution/verification oracle; plus the complete registry name/object identity check."
)
LEVEL_NOTE = "Trusted: each scheme's own unconfigured handler as hash producer, Hypothesis."
TECHNIQUE = "enumeration of shipped contexts x schemes with Hypothesis-generated hashes and an attribution oracle"
#: thorough tier: seed-dependent tasks are repeated under this many derived seeds (run.py); the listed task functions enumerate fixed domains
THOROUGH_REPS = 8
DETERMINISTIC_FNS = ('t_presets', 't_registry', 't_import_order')
RULE += " Every shipped context lists the same schemes whatever module of the package is imported first (fresh interpreter per import order); the documented Django presets are the documented per-version contexts; plaintext-family schemes are tried with hostile passwords (disabled markers, RFC 2307 braces, crypt prefixes)."
ASSUMPTIONS = [('passwords for catch-all schemes (plaintext family) ARE the hash: a case counts when no scheme listed earlier claims the text, the catch-all schemes being judged by their documented acceptance (plain_claims)' if a.startswith('passwords for catch-all scheme') or 'passwords for catch-all scheme' in a else a) for a in ASSUMPTIONS]

APPS = ["custom_app_context", "django_context", "django10_context", "django14_context", "django16_context", "django110_context", "django21_context", "django31_context",
        "ldap_context", "ldap_nocrypt_context", "mysql_context", "mysql4_context", "mysql3_context", "phpass_context", "phpbb3_context", "postgres_context",
        "roundup10_context", "roundup15_context", "roundup_context"]
HOSTS = ["linux_context", "linux2_context", "openbsd_context", "netbsd_context", "freebsd_context", "host_context"]
PRESETS = ["passlib-default", "django-default", "django-latest", "django-1.0", "django-1.4", "django-1.6"]
ARGON2_SAMPLES = {"django_argon2": "argon2$argon2i$v=19$m=256,t=1,p=1$c29tZXNhbHQ$AJFIsNZTMKTAewB4+ETN1A", "argon2": "$argon2i$v=19$m=256,t=1,p=1$c29tZXNhbHQ$AJFIsNZTMKTAewB4+ETN1A"}


def get_context(cid):
    kind, name = cid.split(":", 1)
    if kind == "apps":
        import passlib.apps as m

        return getattr(m, name)
    if kind == "hosts":
        import passlib.hosts as m

        return getattr(m, name, None)
    if kind == "apache":
        import passlib.apache as m

        return m.htpasswd_context
    if kind == "django-preset":
        from passlib.context import CryptContext
        from passlib.ext.django.utils import get_preset_config

        return CryptContext.from_string(get_preset_config(name))
    raise KeyError(cid)


def all_context_ids():
    ids = [f"apps:{n}" for n in APPS] + [f"hosts:{n}" for n in HOSTS] + ["apache:htpasswd_context"] + [f"django-preset:{n}" for n in PRESETS]
    import passlib.apps
    import passlib.hosts

    for n in passlib.apps.__all__:
        if f"apps:{n}" not in ids:
            ids.append(f"apps:{n}")
    for n in passlib.hosts.__all__:
        if f"hosts:{n}" not in ids:
            ids.append(f"hosts:{n}")
    return ids


@oracle(PROPERTY, "attribution")
def o_attr(rec: Recorder, case, soft=False):
    """case: {context, scheme, settings, ctx_kw, secret}"""
    cid, scheme, settings, kw, secret = case["context"], case["scheme"], case["settings"], case["ctx_kw"], case["secret"]
    ctx = get_context(cid)
    f = table.T[scheme]
    h = table.handler(scheme)
    if not table.available(scheme):
        sample = ARGON2_SAMPLES.get(scheme)
        if sample:
            got = ctx.identify(sample)
            if got != scheme:
                rec.fail(f"C17/attribution/{cid}/{scheme}", f"{cid}: a {scheme} string is attributed to {got!r}", "attribution", case, got, scheme, soft=soft)
        rec.count("identify-only:no-backend")
        return
    hs = (h.using(**settings) if settings else h).hash(secret, **kw)
    got = ctx.identify(hs)
    if got != scheme:
        rec.fail(f"C17/attribution/{cid}/{scheme}", f"{cid}: a hash made by its scheme {scheme} is attributed to {got!r}", "attribution", case, got, scheme, soft=soft)
        return
    vkw = {k: v for k, v in kw.items()}
    st, r = call(ctx.verify, secret, hs, **vkw)
    want = not f.disabled
    if st == "err" or r is not want:
        rec.fail(f"C17/verify/{cid}/{scheme}", f"{cid}: verify() of the right password against a {scheme} hash is {r!r}", "attribution", case, repr(r), want, soft=soft)
        return
    wrong = ("Zq" if isinstance(secret, str) else b"Zq") + secret
    st, r = call(ctx.verify, wrong, hs, **vkw)
    if st == "err" or r is not False:
        if not (f.key(wrong, {}, kw) == f.key(secret, {}, kw)):
            rec.fail(f"C17/verify-wrong/{cid}/{scheme}", f"{cid}: verify() of a wrong password against a {scheme} hash is {r!r}", "attribution", case, repr(r), False, soft=soft)
            return
    if not f.plaintext:
        st, r = call(ctx.verify, hs, hs, **vkw)
        if st == "ok" and r is not False:
            rec.fail(f"C17/hash-as-password/{cid}/{scheme}", f"{cid}: the hash text itself verifies as the password", "attribution", case, r, False, soft=soft)


@oracle(PROPERTY, "registry")
def o_registry(rec: Recorder, case, soft=False):
    import passlib.hash
    from passlib import registry

    n = case["name"]
    h = registry.get_crypt_handler(n)
    if h.name != n:
        rec.fail(f"C17/registry-name/{n}", "registry name loads a hasher carrying another name", "registry", case, h.name, n, soft=soft)
        return
    if getattr(passlib.hash, n) is not h:
        rec.fail(f"C17/registry-identity/{n}", "passlib.hash.<name> is not the registry object", "registry", case, None, None, soft=soft)
        return
    if registry.get_crypt_handler(n.upper() if n.upper() != n else n, None) is not None and False:
        pass
    if n not in registry.list_crypt_handlers() or n not in dir(passlib.hash):
        rec.fail(f"C17/registry-listing/{n}", "name missing from list_crypt_handlers()/dir(passlib.hash)", "registry", case, None, None, soft=soft)


@oracle(PROPERTY, "import_order")
def o_import_order(rec, case, soft=False):
    t_import_order(rec, 0, "quick")


ORACLES = {"attribution": o_attr, "registry": o_registry, "import_order": o_import_order}


#: passwords shaped like the things other schemes key on (disabled markers, RFC 2307 braces, crypt prefixes)
HOSTILE_PLAIN = ["!", "*", "!x", "*LK*secret", "!!", "{50%} off", "{ }", "{!}x", "{my secret} pw", "{}", "{abc", "abc}", "{pw", "$notahash", "_", "a:b", "#hash", " lead", "{SHA", "{a b}c"]


def plain_claims(scheme, text):
    """documented acceptance of the catch-all schemes, written from their docs (None: the docs leave it open)"""
    import re

    if scheme == "plaintext":
        return text != ""
    if scheme == "roundup_plaintext":
        return text.startswith("{plaintext}")
    if scheme == "ldap_plaintext":  # "identifies a hash only if it does NOT begin with the {XXX} identifier prefix used by RFC 2307 passwords"
        if not text:
            return False
        m = re.match(r"^\{([^}]*)\}", text)
        if m is None:
            return True
        body = m.group(1)
        if re.fullmatch(r"[A-Za-z0-9_]+", body):
            return False
        if body == "" or re.search(r"[^A-Za-z0-9_./-]", body):
            return True  # cannot be an RFC 2307 scheme identifier
        return None
    raise KeyError(scheme)


def _plain_secret_ok(ctx, scheme, text):
    """a plaintext 'hash' IS the password: it is a hash of `scheme` in this context only when no scheme listed before it claims the text.
    The catch-all schemes are judged by their documented acceptance (plain_claims), the others by their own unconfigured identify()."""
    for s in ctx.schemes():
        c = plain_claims(s, text) if s in ("plaintext", "ldap_plaintext", "roundup_plaintext") else table.handler(s).identify(text)
        if c is None:
            return False
        if c:
            return s == scheme
    return False


def t_context(rec, seed, tier, cid):
    from hypothesis import strategies as st

    ctx = get_context(cid)
    if ctx is None:
        rec.count("context-absent-on-host")
        return
    schemes = list(ctx.schemes())
    per = {"quick": 40, "thorough": 200}[tier]
    for idx, scheme in enumerate(schemes):
        f = table.T.get(scheme)
        if f is None:
            rec.fail(f"C17/unknown-scheme/{cid}/{scheme}", "context lists a scheme the format table does not know", "attribution", {"context": cid, "scheme": scheme}, None, None, soft=True)
            continue
        n = per if "bcrypt" not in scheme else max(2, per // 3)
        if not table.available(scheme):
            o_attr(rec, {"context": cid, "scheme": scheme, "settings": {}, "ctx_kw": {}, "secret": "pw"}, soft=True)
            continue

        @st.composite
        def cases(draw, scheme=scheme, f=f):
            settings = draw(S.settings(scheme))
            if "bcrypt" in scheme:
                settings["rounds"] = 4
            kw = {k: v for k, v in draw(S.contexts(scheme)).items() if k != "encoding"}
            secret = draw(st.sampled_from(["pässword", "pw", "correct horse", "x" * 30, "Tr0ub4dor&3"] + (HOSTILE_PLAIN * 2 if f.plaintext and not f.salt else [])))
            if f.maxlen:
                secret = secret[: f.maxlen // 2]
            if f.secret == "lm":
                secret = "password"
            return {"context": cid, "scheme": scheme, "settings": settings, "ctx_kw": kw, "secret": secret}

        def body(case, scheme=scheme, f=f, idx=idx):
            if f.plaintext and not f.salt and not _plain_secret_ok(ctx, scheme, case["secret"] if scheme != "roundup_plaintext" else "{plaintext}" + case["secret"]):
                rec.count("plaintext-password-claimed-by-other-scheme")
                return
            rec.ev()
            if idx > 0:
                rec.nt(cid, scheme, sorted((k, repr(v)) for k, v in case["settings"].items() if k != "salt"), len(case["settings"].get("salt", "") or "") if not isinstance(case["settings"].get("salt"), int) else 0)
            rec.count(f"attribution:{'first' if idx == 0 else 'later'}-scheme")
            if idx > 0:
                rec.sample(f"{cid}", case)
            o_attr(rec, case)

        hyp_campaign(rec, body, cases(), n, seed + idx, shrink_budget=10)
    rec.subrecord(f"context:{cid}", schemes=schemes)


def t_registry(rec, seed, tier):
    from passlib import registry

    names = registry.list_crypt_handlers()
    for n in names:
        rec.ev()
        rec.nt("registry", n)
        o_registry(rec, {"name": n}, soft=True)
    rec.sample("registry", {"names": len(names)})
    rec.subrecord("registry", exhaustive=True, names=len(names))


IMPORT_PROBE = """
import sys, json, importlib
sys.path.insert(0, sys.argv[1])
for m in sys.argv[2].split(","):
    importlib.import_module("passlib." + m)
import passlib.apps, passlib.hosts, passlib.apache
from passlib import registry
out = {}
for mod in (passlib.apps, passlib.hosts):
    for n in mod.__all__:
        c = getattr(mod, n, None)
        if c is not None and hasattr(c, "schemes"):
            out[mod.__name__.split(".")[1] + ":" + n] = list(c.schemes())
out["apache:htpasswd_context"] = list(passlib.apache.htpasswd_context.schemes())
out["registry:os_crypt_schemes"] = list(registry.get_supported_os_crypt_schemes())
print(json.dumps(out))
"""


REGISTRY_PROBE = """
import sys, json, warnings
warnings.simplefilter("ignore")
sys.path.insert(0, sys.argv[1])
from passlib import registry
import passlib.hash
import passlib.utils.handlers as uh
out = {}
# spellings with hyphens / capitals are documented to be normalised (with a warning) before the lazy lookup
for alias, name in (("sha256-crypt", "sha256_crypt"), ("LDAP-Salted-SHA1", "ldap_salted_sha1"), ("PBKDF2_SHA512", "pbkdf2_sha512"), ("Phpass", "phpass")):
    try:
        out["alias:" + alias] = registry.get_crypt_handler(alias).name
    except Exception as e:
        out["alias:" + alias] = "ERR " + type(e).__name__
# a lazy location whose hasher carries another name must not load under the registered name
registry.register_crypt_handler_path("vp_dummy_alias", "passlib.handlers.md5_crypt:apr_md5_crypt")
try:
    h = registry.get_crypt_handler("vp_dummy_alias")
    out["path-name-mismatch"] = "loaded " + h.name
except ValueError:
    out["path-name-mismatch"] = "refused"
except Exception as e:
    out["path-name-mismatch"] = "ERR " + type(e).__name__
class vp_named_bar(uh.StaticHandler):
    name = "vp_named_bar"
    checksum_size = 1
    checksum_chars = "x"
    def _calc_checksum(self, secret):
        return "x"
try:
    passlib.hash.vp_named_foo = vp_named_bar
    out["proxy-setattr-mismatch"] = "accepted"
except ValueError:
    out["proxy-setattr-mismatch"] = "refused"
except Exception as e:
    out["proxy-setattr-mismatch"] = "ERR " + type(e).__name__
passlib.hash.vp_named_bar = vp_named_bar
out["proxy-setattr"] = registry.get_crypt_handler("vp_named_bar") is vp_named_bar and passlib.hash.vp_named_bar is vp_named_bar
print(json.dumps(out))
"""


@oracle(PROPERTY, "registry_api")
def o_registry_api(rec, case, soft=False):
    """the name written to the registry is the name that loads the hasher: alias spellings, lazy locations, assignment through passlib.hash"""
    import json
    import subprocess
    import sys

    from ..common import REPO

    r = subprocess.run([sys.executable, "-c", REGISTRY_PROBE, REPO], capture_output=True, text=True, timeout=120)
    if r.returncode != 0:
        rec.fail("C17/registry-api/probe-raises", "the registry probe raises", "registry_api", case, r.stderr[-400:], None, soft=soft)
        return
    got = json.loads(r.stdout.strip().splitlines()[-1])
    want = {"alias:sha256-crypt": "sha256_crypt", "alias:LDAP-Salted-SHA1": "ldap_salted_sha1", "alias:PBKDF2_SHA512": "pbkdf2_sha512", "alias:Phpass": "phpass",
            "path-name-mismatch": "refused", "proxy-setattr-mismatch": "refused", "proxy-setattr": True}
    for k in want:
        rec.ev()
        rec.nt("registry-api", k)
        if got.get(k) != want[k]:
            rec.fail(f"C17/registry-api/{k.split(':')[0]}", f"registry: {k} gives {got.get(k)!r}", "registry_api", dict(case, probe=k), got.get(k), want[k], soft=soft)
            return


def t_import_order(rec, seed, tier):
    o_registry_api(rec, {}, soft=True)
    """a shipped context is the same object whatever module of the package was imported first (fresh interpreter per order)"""
    import itertools
    import json
    import subprocess
    import sys

    from ..common import REPO

    results = {}
    for order in itertools.permutations(["apps", "hosts", "apache"]):
        r = subprocess.run([sys.executable, "-c", IMPORT_PROBE, REPO, ",".join(order)], capture_output=True, text=True, timeout=120)
        if r.returncode != 0:
            rec.fail(f"C17/import-order/raises/{'-'.join(order)}", "importing the shipped contexts in this order raises", "import_order", {"order": list(order)}, r.stderr[-400:], None, soft=True)
            continue
        results[order] = json.loads(r.stdout.strip().splitlines()[-1])
        rec.ev()
    ref_order = ("apps", "hosts", "apache")
    ref = results.get(ref_order)
    for order, got in results.items():
        for cid in sorted(got):
            rec.nt("import-order", order, cid)
            if ref is not None and got[cid] != ref.get(cid):
                rec.fail(f"C17/import-order/{cid}", f"{cid} lists different schemes when the package modules are imported in the order {order} than in {ref_order}", "import_order",
                         {"order": list(order), "context": cid}, got[cid], ref.get(cid), soft=True)
    from passlib.utils import unix_crypt_schemes

    for order, got in results.items():
        extra = [x for x in got["registry:os_crypt_schemes"] if x not in unix_crypt_schemes]
        if extra:
            rec.fail("C17/os-crypt-schemes-not-crypt", "get_supported_os_crypt_schemes() reports a name that is not a crypt() scheme", "import_order", {"order": list(order)}, extra, [], soft=True)
    rec.sample("import-order", {"orders": [list(o) for o in results], "contexts": len(ref or {})})
    rec.subrecord("import-orders", exhaustive=True, orders=len(results))


@oracle(PROPERTY, "presets")
def o_presets(rec, case, soft=False):
    """the documented Django presets are the documented per-version contexts ("django-1.6 - config used by stock Django 1.6 installs")"""
    import passlib.apps
    from passlib.context import CryptContext
    from passlib.ext.django.utils import get_preset_config

    for preset, attr in (("django-1.0", "django10_context"), ("django-1.4", "django14_context"), ("django-1.6", "django16_context"), ("django-latest", "django_context")):
        rec.ev()
        rec.nt("preset", preset)
        got = list(CryptContext.from_string(get_preset_config(preset)).schemes())
        want = list(getattr(passlib.apps, attr).schemes())
        if got != want:
            rec.fail(f"C17/preset-schemes/{preset}", f"preset {preset!r} does not list the schemes of passlib.apps.{attr}", "presets", {"preset": preset}, got, want, soft=soft)
            return
    # documented version ladder: 1.4 added the pbkdf2 and bcrypt formats, 1.6 added bcrypt_sha256
    s14 = CryptContext.from_string(get_preset_config("django-1.4")).schemes()
    s16 = CryptContext.from_string(get_preset_config("django-1.6")).schemes()
    if "django_bcrypt_sha256" in s14 or "django_bcrypt_sha256" not in s16 or "django_pbkdf2_sha256" not in s14:
        rec.fail("C17/preset-version-ladder", "the django-1.4 / django-1.6 presets do not carry the formats those versions introduced", "presets", {"preset": "django-1.4/1.6"}, [list(s14), list(s16)], None, soft=soft)


ORACLES["presets"] = o_presets
ORACLES["registry_api"] = o_registry_api


@oracle(PROPERTY, "host_context")
def o_host_context(rec, case, soft=False):
    """host_context mirrors the host: every crypt() scheme the C library demonstrably supports (independent probe through libxcrypt with a
    published vector), strongest first in the documented order, then unix_disabled"""
    import passlib.hosts
    from passlib.utils import unix_crypt_schemes

    from ..refs import third as R3

    ctx = getattr(passlib.hosts, "host_context", None)
    if ctx is None:
        rec.count("host_context-absent")
        return
    want = [n for n in unix_crypt_schemes if R3.os_crypt_supports(n)] + ["unix_disabled"]
    got = list(ctx.schemes())
    rec.ev()
    rec.nt("host_context", tuple(want))
    if got != want:
        rec.fail("C17/host-context-schemes", "passlib.hosts.host_context does not list exactly the crypt() schemes the host supports (+ unix_disabled)", "host_context", case, got, want, soft=soft)


ORACLES["host_context"] = o_host_context


def t_presets(rec, seed, tier):
    o_host_context(rec, {}, soft=True)
    o_presets(rec, {}, soft=True)
    rec.sample("presets", {"presets": ["django-1.0", "django-1.4", "django-1.6", "django-latest"]})


def tasks(tier):
    ts = [{"name": f"ctx-{cid}", "fn": "t_context", "kw": {"cid": cid}} for cid in all_context_ids()] + [{"name": "presets", "fn": "t_presets"}]
    ts.append({"name": "registry", "fn": "t_registry"})
    ts.append({"name": "import-order", "fn": "t_import_order"})
    return ts
