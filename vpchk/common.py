"""Shared machinery for all property checks (DESIGN.md section 1).

Recorder      -- per-task counters / samples / non-trivial fingerprints / failure buckets
Violation     -- raised by an oracle when a property is broken (carries a replayable case)
hyp_campaign  -- run a Hypothesis campaign (seeded, no database, bounded shrink time)
hyp_machine   -- same for rule based state machines
J / U         -- JSON (de)serialisation of cases containing bytes
"""

from __future__ import annotations

import collections
import hashlib
import json
import os
import sys
import time
import traceback
import warnings

REPO = os.environ.get("VPCHK_REPO", "/repo")
VERIF = os.path.dirname(os.path.dirname(os.path.abspath(__file__)))

#: exceptions an API call on string input may raise by documentation (DESIGN section 1)
DOCUMENTED_ERRORS = (ValueError, TypeError)


def setup_repo_path():
    """make `import passlib` / `import libpass` come from the working tree under test"""
    if sys.path[0] != REPO:
        sys.path.insert(0, REPO)
    warnings.simplefilter("ignore")
    import passlib
    import libpass

    for mod in (passlib, libpass):
        if not os.path.abspath(mod.__file__).startswith(os.path.abspath(REPO) + os.sep):
            raise HarnessError(f"{mod.__name__} imported from {mod.__file__}, not from {REPO}")
    # keep the library quiet: warnings are not part of any oracle
    import logging

    logging.disable(logging.CRITICAL)


class HarnessError(Exception):
    pass


# --------------------------------------------------------------------------------------
# JSON helpers
# --------------------------------------------------------------------------------------
def J(x):
    """convert a case into plain JSON data (bytes -> {"$b": hex}, lone surrogates escaped)"""
    if isinstance(x, (bytes, bytearray)):
        return {"$b": bytes(x).hex()}
    if isinstance(x, str):
        try:
            x.encode("utf-8")
            return x
        except UnicodeEncodeError:
            return {"$s": x.encode("utf-8", "surrogatepass").hex()}
    if isinstance(x, bool) or x is None or isinstance(x, (int, float)):
        return x
    if isinstance(x, dict):
        return {str(k): J(v) for k, v in x.items()}
    if isinstance(x, (list, tuple)):
        return [J(v) for v in x]
    if isinstance(x, (set, frozenset)):
        return [J(v) for v in sorted(x, key=repr)]
    return repr(x)


def U(x):
    """inverse of J (lists stay lists)"""
    if isinstance(x, dict):
        if set(x) == {"$b"}:
            return bytes.fromhex(x["$b"])
        if set(x) == {"$s"}:
            return bytes.fromhex(x["$s"]).decode("utf-8", "surrogatepass")
        return {k: U(v) for k, v in x.items()}
    if isinstance(x, list):
        return [U(v) for v in x]
    return x


def fp(*parts) -> str:
    return hashlib.blake2b(repr(parts).encode("utf-8", "backslashreplace"), digest_size=8).hexdigest()


def short(x, n=200):
    r = x if isinstance(x, str) else repr(x)
    return r if len(r) <= n else r[: n - 12] + f"...<{len(r)}>"


def derive_seed(seed: int, *purpose) -> int:
    h = hashlib.sha256(repr((int(seed),) + purpose).encode()).digest()
    return int.from_bytes(h[:6], "big")


def exc_site(exc: BaseException) -> str:
    """innermost frame inside the repository's packages: 'module.function'"""
    site = "?"
    for frame, _ in traceback.walk_tb(exc.__traceback__):
        fn = frame.f_code.co_filename
        if fn.startswith(os.path.abspath(REPO) + os.sep) and ("/passlib/" in fn or "/libpass/" in fn):
            mod = os.path.splitext(os.path.relpath(fn, REPO))[0].replace("/", ".")
            site = f"{mod}.{frame.f_code.co_name}"
    return site


# --------------------------------------------------------------------------------------
# violations and recorder
# --------------------------------------------------------------------------------------
class Violation(Exception):
    def __init__(self, bucket, what, oracle, case, observed=None, expected=None):
        super().__init__(f"{bucket}: {what}")
        self.bucket = bucket
        self.what = what
        self.oracle = oracle
        self.case = case
        self.observed = observed
        self.expected = expected

    def as_dict(self):
        return {
            "bucket": self.bucket,
            "what": self.what,
            "oracle": self.oracle,
            "case": J(self.case),
            "observed": J(short(self.observed, 600)) if self.observed is not None else None,
            "expected": J(short(self.expected, 600)) if self.expected is not None else None,
        }

    def __reduce__(self):
        return (Violation, (self.bucket, self.what, self.oracle, self.case, self.observed, self.expected))


class Recorder:
    """Collects what a task covered.  One per task (worker process)."""

    MAX_SAMPLES_PER_LABEL = 3
    MAX_BUCKETS = 12

    def __init__(self, excluded=()):
        self.evaluations = 0
        self.counters = collections.Counter()
        self.samples = collections.OrderedDict()
        self.nontrivial = set()
        self.nontrivial_bulk = 0
        self.excluded = set(excluded)
        self.excluded_hits = collections.Counter()
        self.soft_failures = []
        self.sub = {}

    # -- coverage -------------------------------------------------------------------
    def ev(self, n=1):
        self.evaluations += n

    def count(self, label, n=1):
        self.counters[label] += n

    def nt(self, *fingerprint):
        """register a non-trivial case; distinctness is by the fingerprint parts"""
        self.nontrivial.add(fp(*fingerprint))

    def nt_bulk(self, n):
        """n distinct non-trivial cases produced by an enumeration (distinct by construction)"""
        self.nontrivial_bulk += int(n)

    def sample(self, label, obj):
        lst = self.samples.setdefault(label, [])
        if len(lst) < self.MAX_SAMPLES_PER_LABEL:
            lst.append(J(obj))

    def subrecord(self, name, **kw):
        self.sub.setdefault(name, {}).update(J(kw))

    # -- failures -------------------------------------------------------------------
    def fail(self, bucket, what, oracle, case, observed=None, expected=None, soft=False):
        """report a broken oracle.  Hard: raise Violation (so Hypothesis can shrink).
        Soft (enumeration loops): remember the first failure of that bucket and go on."""
        if bucket in self.excluded:
            self.excluded_hits[bucket] += 1
            return
        v = Violation(bucket, what, oracle, case, observed, expected)
        if soft:
            self.soft_failures.append(v.as_dict())
            self.excluded.add(bucket)
            return
        raise v

    def reset_counts(self):
        self.evaluations = 0
        self.counters.clear()
        self.samples.clear()
        self.nontrivial.clear()
        self.nontrivial_bulk = 0
        self.sub = {}

    def summary(self):
        return {
            "evaluations": self.evaluations,
            "counters": dict(self.counters),
            "samples": {k: v for k, v in self.samples.items()},
            "nontrivial": sorted(self.nontrivial),
            "nontrivial_bulk": self.nontrivial_bulk,
            "excluded_hits": dict(self.excluded_hits),
            "sub": self.sub,
        }


# --------------------------------------------------------------------------------------
# Hypothesis drivers
# --------------------------------------------------------------------------------------
def _hyp_settings(max_examples, shrink=True, stateful_step_count=None):
    from hypothesis import HealthCheck, Phase, Verbosity, settings

    phases = [Phase.generate, Phase.target]
    if shrink:
        phases.append(Phase.shrink)
    kw = dict(
        max_examples=max_examples,
        database=None,
        deadline=None,
        derandomize=False,
        report_multiple_bugs=False,
        suppress_health_check=list(HealthCheck),
        phases=phases,
        verbosity=Verbosity.quiet,
        print_blob=False,
    )
    if stateful_step_count is not None:
        kw["stateful_step_count"] = stateful_step_count
    return settings(**kw)


class Budget:
    """wall-clock budget: when exhausted the campaign stops exploring (never a violation)"""

    def __init__(self, seconds):
        self.t_end = time.monotonic() + seconds if seconds else None
        self.skipped = 0

    def over(self):
        return self.t_end is not None and time.monotonic() > self.t_end


def hyp_campaign(rec: Recorder, body, strategy, max_examples, seed, shrink_budget=25.0, budget_s=None, shrink=True):
    """run `body(case)` over `strategy`.  A Violation raised by body is shrunk (for at most
    shrink_budget seconds) and re-raised with the smallest case seen."""
    from hypothesis import given
    from hypothesis import seed as hseed

    state = {"t_first": None, "last": None}
    budget = Budget(budget_s)

    def wrapped(case):
        if state["t_first"] is not None and time.monotonic() - state["t_first"] > shrink_budget:
            return
        if state["t_first"] is None and budget.over():
            budget.skipped += 1
            return
        try:
            body(case)
        except Violation as v:
            if state["t_first"] is None:
                state["t_first"] = time.monotonic()
            state["last"] = v
            raise

    test = hseed(int(seed))(_hyp_settings(max_examples, shrink=shrink)(given(strategy)(wrapped)))
    try:
        test()
    except Violation:
        raise state["last"]
    except BaseException:
        if state["last"] is not None:
            raise state["last"]
        raise
    finally:
        if budget.skipped:
            rec.count("budget_skipped_cases", budget.skipped)


def hyp_machine(rec: Recorder, machine_cls, max_examples, steps, seed, shrink_budget=30.0, shrink=True):
    """run a RuleBasedStateMachine.  The machine is expected to raise Violation whose .case
    holds the executed operation list."""
    from hypothesis import seed as hseed
    from hypothesis.stateful import run_state_machine_as_test

    state = {"t_first": None, "last": None}
    machine_cls._vp_state = state
    machine_cls._vp_shrink_budget = shrink_budget
    try:
        run_state_machine_as_test(
            hseed(int(seed))(machine_cls),
            settings=_hyp_settings(max_examples, shrink=shrink, stateful_step_count=steps),
        )
    except Violation:
        raise state["last"] or sys.exc_info()[1]
    except BaseException:
        if state["last"] is not None:
            raise state["last"]
        raise


def machine_guard(machine):
    """call at the top of every rule/invariant of a machine run through hyp_machine:
    returns True when the shrink budget is exhausted (rule should do nothing)."""
    st = getattr(machine, "_vp_state", None)
    if st and st["t_first"] is not None:
        return time.monotonic() - st["t_first"] > machine._vp_shrink_budget
    return False


def machine_fail(machine, v: Violation):
    st = getattr(machine, "_vp_state", None)
    if st is not None:
        if st["t_first"] is None:
            st["t_first"] = time.monotonic()
        st["last"] = v
    raise v


# --------------------------------------------------------------------------------------
# misc helpers used by many checks
# --------------------------------------------------------------------------------------
def call(fn, *a, **k):
    """-> ("ok", value) | ("err", exception)"""
    try:
        return "ok", fn(*a, **k)
    except Exception as e:  # noqa: BLE001 - classification is the point
        return "err", e


def is_documented_error(e: BaseException) -> bool:
    return isinstance(e, DOCUMENTED_ERRORS)


def load_json(path):
    with open(path, encoding="utf-8") as fh:
        return json.load(fh)


def raised_in_repo(exc: BaseException) -> bool:
    """True when the innermost frame of the traceback belongs to the repository under test
    (or to a library it called), i.e. the harness code itself did not raise it"""
    last = None
    for frame, _ in traceback.walk_tb(exc.__traceback__):
        last = frame
    seen_repo = False
    for frame, _ in traceback.walk_tb(exc.__traceback__):
        if frame.f_code.co_filename.startswith(os.path.abspath(REPO) + os.sep):
            seen_repo = True
    if last is None:
        return False
    return seen_repo and not last.f_code.co_filename.startswith(VERIF + os.sep)


def oracle(prop, name):
    """decorator for oracle functions (rec, case, soft=False): an exception that escapes from
    repository code where the oracle expected the call to succeed is a violation of its own
    bucket '<prop>/unexpected-exception/<oracle>/<Type>@<site>'; exceptions raised by the
    harness code itself propagate (harness error)."""
    import functools

    def deco(fn):
        @functools.wraps(fn)
        def wrapper(rec, case, soft=False):
            try:
                return fn(rec, case, soft=soft)
            except Violation:
                raise
            except Exception as e:  # noqa: BLE001
                if not raised_in_repo(e):
                    raise
                bucket = f"{prop}/unexpected-exception/{name}/{type(e).__name__}@{exc_site(e)}"
                rec.fail(bucket, f"{type(e).__name__} escaped from {exc_site(e)}: {short(str(e), 120)}", name, case, repr(e), "no exception", soft=soft)

        wrapper.oracle_name = name
        return wrapper

    return deco
