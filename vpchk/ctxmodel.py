"""Reference model of CryptContext policy decisions (DESIGN.md 2.5 / appendix A), written from
docs/lib/passlib.context.rst: option inheritance (all < scheme < category-all < category-scheme, key by key),
default, deprecated / 'auto', per-category fallback, relaxed clipping to hard limits, default clipped into the window.
"Which scheme claims a hash" uses each handler's real identify() (the property defines attribution in those terms)."""

from __future__ import annotations

from .gens import table

ROUNDS_KEYS = ("rounds", "min_rounds", "max_rounds", "default_rounds", "vary_rounds")


class ConfigError(Exception):
    """the model predicts the constructor / load / update must raise"""


def split_key(key):
    """'cat__scheme__opt' | 'scheme__opt' | 'opt' | 'cat__context__opt' -> (cat, scheme, opt)"""
    parts = key.replace(".", "__").split("__")
    if len(parts) == 1:
        return None, None, parts[0]
    if len(parts) == 2:
        cat, (scheme, opt) = None, parts
    elif len(parts) == 3:
        cat, scheme, opt = parts
    else:
        raise ConfigError("too many key parts")
    if cat == "default":
        cat = None
    if scheme == "context":
        scheme = None
    return cat, scheme, opt


class Model:
    def __init__(self, config: dict):
        self.schemes = []
        self.ctx = {}  # (cat, opt) -> value for context options default/deprecated
        self.opts = {}  # (scheme, cat) -> {opt: value}
        self.cats = set()
        for key, value in config.items():
            cat, scheme, opt = split_key(key)
            if scheme is None and cat is None and opt == "vary_rounds":
                scheme = "all"  # documented global setting: same as all__vary_rounds
            if scheme is None:
                if opt == "schemes":
                    if cat:
                        raise ConfigError("schemes per category")
                    self.schemes = [s.strip() for s in value.split(",")] if isinstance(value, str) else list(value)
                elif opt in ("default", "deprecated"):
                    if opt == "deprecated" and isinstance(value, str):
                        value = [s.strip() for s in value.split(",")]
                    self.ctx[cat, opt] = value
                    if cat:
                        self.cats.add(cat)
                elif opt == "truncate_error":
                    self.ctx[cat, opt] = value
                    if cat is None:
                        self.opts.setdefault(("all", None), {})[opt] = value  # global setting handed to every scheme that knows it
                else:
                    raise ConfigError(f"unknown context option {opt}")
            else:
                self.opts.setdefault((scheme, cat), {})[opt] = value
                if cat:
                    self.cats.add(cat)
        names = [s if isinstance(s, str) else s.name for s in self.schemes]
        if len(set(names)) != len(names):
            raise ConfigError("duplicate scheme")
        self.names = names
        for (scheme, cat) in self.opts:
            if scheme != "all" and scheme not in names:
                raise ConfigError(f"options for unlisted scheme {scheme}")
        # defaults / deprecated per category
        self.default = {}
        self.deprecated = {}
        for cat in [None] + sorted(self.cats):
            dep = self.ctx.get((cat, "deprecated"), self.ctx.get((None, "deprecated")))
            dep = list(dep) if dep else []
            auto = "auto" in dep
            if auto and len(dep) > 1:
                raise ConfigError("auto mixed with names")
            for d in dep:
                if d != "auto" and d not in names:
                    raise ConfigError("deprecated scheme not in schemes")
            dflt = self.ctx.get((cat, "default"), self.ctx.get((None, "default")))
            if dflt is not None and dflt not in names:
                raise ConfigError("default not in schemes")
            if not names:
                continue
            if dflt is None:
                cand = [s for s in names if auto or s not in dep]
                if not cand:
                    raise ConfigError("all schemes deprecated")
                dflt = cand[0]
            elif not auto and dflt in dep:
                raise ConfigError("default is deprecated")
            self.default[cat] = dflt
            self.deprecated[cat] = [s for s in names if s != dflt] if auto else [d for d in dep]

    # ---- per scheme/category settings ---------------------------------------------------------------
    def merged(self, scheme, cat):
        h = table.handler(scheme)
        allowed = set(h.setting_kwds) | ({"min_rounds", "max_rounds", "default_rounds", "vary_rounds", "min_desired_rounds", "max_desired_rounds"} if "rounds" in h.setting_kwds else set())
        kw = {k: v for k, v in self.opts.get(("all", None), {}).items() if k in allowed}
        if cat:
            kw.update({k: v for k, v in self.opts.get(("all", cat), {}).items() if k in allowed})
        kw.update(self.opts.get((scheme, None), {}))
        if cat:
            kw.update(self.opts.get((scheme, cat), {}))
        return kw

    def rounds_window(self, scheme, cat):
        """-> (min_desired or None, max_desired or None, default or None, vary) after relaxed using(); raises ConfigError"""
        h = table.handler(scheme)
        if "rounds" not in h.setting_kwds:
            return None
        kw = self.merged(scheme, cat)
        return model_using_rounds(h, h, kw, relaxed=True)

    def cat_of(self, category):
        return category if category in self.cats else None

    def is_deprecated(self, scheme, category):
        return scheme in self.deprecated[self.cat_of(category)]

    def default_scheme(self, category):
        return self.default[self.cat_of(category)]

    def owner(self, hash_):
        for s in self.names:
            if table.handler(s).identify(hash_):
                return s
        return None

    def needs_update(self, hash_, category, scheme_flag):
        s = self.owner(hash_)
        cat = self.cat_of(category)
        if self.is_deprecated(s, cat):
            return True
        win = self.rounds_window(s, cat)
        if win is not None:
            mn, mx, _, _ = win
            r = parsed_rounds(s, hash_)
            if r is not None:
                if mn and r < mn:
                    return True
                if mx and r > mx:
                    return True
        return bool(scheme_flag)


def _int(v):
    if isinstance(v, str):
        return int(v)
    return v


def model_using_rounds(base, parent, kw, relaxed):
    """model of the rounds part of using() -- appendix A.  parent supplies inherited (min_d, max_d, default, vary)."""
    hard_min, hard_max = base.min_rounds, base.max_rounds
    p_min, p_max, p_def, p_vary = parent.min_desired_rounds, parent.max_desired_rounds, parent.default_rounds, getattr(parent, "vary_rounds", None)
    mn = kw.get("min_rounds", kw.get("min_desired_rounds"))
    mx = kw.get("max_rounds", kw.get("max_desired_rounds"))
    if "min_rounds" in kw and "min_desired_rounds" in kw or "max_rounds" in kw and "max_desired_rounds" in kw:
        raise ConfigError("alias conflict")
    df = kw.get("default_rounds")
    r = kw.get("rounds")
    try:
        mn, mx, df, r = _int(mn), _int(mx), _int(df), _int(r)
    except ValueError:
        raise ConfigError("non-integer rounds value") from None
    if r is not None:
        mn = r if mn is None else mn
        mx = r if mx is None else mx
        df = r if df is None else df

    def norm(v):
        if v < hard_min:
            if not relaxed:
                raise ConfigError("below hard minimum")
            return hard_min
        if hard_max and v > hard_max:
            if not relaxed:
                raise ConfigError("above hard maximum")
            return hard_max
        return v

    explicit_min = mn is not None
    raw_min = mn if explicit_min else p_min
    out_min = norm(mn) if explicit_min else p_min
    if mx is None:
        raw_max, out_max = p_max, p_max
        if explicit_min and p_max and p_max < out_min:
            raw_max = out_max = out_min  # new minimum above the inherited maximum: the maximum follows (warning)
    else:
        raw_max = mx
        if raw_min and mx < raw_min:
            if explicit_min:
                raise ConfigError("max below min")
            raw_max = raw_min
        out_max = norm(raw_max)
    out_def = p_def
    if df is not None:
        if raw_min and df < raw_min:
            raise ConfigError("default below min")
        if raw_max and df > raw_max:
            raise ConfigError("default above max")
        out_def = norm(df)
    if out_def is not None:
        lo = out_min or 0
        if out_def < lo:
            out_def = lo
        elif out_max and out_def > out_max:
            out_def = out_max
    vary = kw.get("vary_rounds", p_vary)
    if isinstance(vary, str):
        try:
            vary = float(vary[:-1]) * 0.01 if vary.endswith("%") else (float(vary) if "." in vary else int(vary))
        except ValueError:
            raise ConfigError("bad vary_rounds") from None
    if vary is not None:
        if vary < 0 or (isinstance(vary, float) and vary > 1):
            raise ConfigError("vary_rounds out of range")
    return out_min, out_max, out_def, vary


def parsed_rounds(scheme, hash_):
    h = table.handler(scheme)
    if not hasattr(h, "from_string") and hasattr(h, "wrapped"):
        inner = h.wrapped
        t = hash_.decode("ascii") if isinstance(hash_, bytes) else hash_
        obj = inner.from_string((h.orig_prefix or "") + t[len(h.prefix):])
    else:
        obj = h.from_string(hash_)
    return getattr(obj, "rounds", None)


def scheme_flag(scheme, hash_):
    """documented per-scheme 'needs update' flags (independent of rounds / deprecation)"""
    t = hash_.decode("ascii") if isinstance(hash_, bytes) else hash_
    if scheme in ("bsdi_crypt", "ldap_bsdi_crypt"):
        return parsed_rounds(scheme, hash_) % 2 == 0
    if scheme == "bcrypt":
        # $2a$ with non-zero padding bits in the salt's last character (passlib issue 25)
        return t.startswith("$2a$") and len(t) > 28 and t[28] not in ".Oeu"
    if scheme == "bcrypt_sha256":
        return not t.startswith("$bcrypt-sha256$v=2")
    return False
