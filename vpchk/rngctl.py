"""Controlled randomness (DESIGN.md 2.4): a random.Random whose outputs are scripted by the harness."""

from __future__ import annotations

import contextlib
import random


class ScriptedRandom(random.Random):
    """every draw is answered from `script` (then zeros); every request is recorded as
    ("bits", k) or ("below", n)."""

    def __init__(self, script=()):
        super().__init__(0)
        self.script = list(script)
        self.pos = 0
        self.requests = []
        self.exhausted = False

    def _next(self):
        if self.pos < len(self.script):
            v = self.script[self.pos]
            self.pos += 1
            return v
        self.exhausted = True
        return 0

    def getrandbits(self, k):
        self.requests.append(("bits", k))
        return self._next() & ((1 << k) - 1) if k else 0

    def _randbelow(self, n):
        self.requests.append(("below", n))
        return self._next() % n

    def random(self):
        return self.getrandbits(53) / (1 << 53)

    def randbytes(self, n):
        return self.getrandbits(8 * n).to_bytes(n, "little")

    def sizes(self):
        return [(1 << a) if kind == "bits" else a for kind, a in self.requests]


PATCH_POINTS = [
    ("passlib.utils", "rng"),
    ("passlib.utils.handlers", "rng"),
    ("passlib.totp", "rng"),
    ("passlib.handlers.django", "rng"),
    ("passlib.pwd", "rng"),
]


@contextlib.contextmanager
def patched_rng(r):
    """install r as the library's random source everywhere the library looks one up by name"""
    import importlib

    saved = []
    # import every module first: a module imported while passlib.utils.rng is already replaced would bind the replacement for good
    for modname, _ in PATCH_POINTS:
        importlib.import_module(modname)
    for modname, attr in PATCH_POINTS:
        mod = importlib.import_module(modname)
        if hasattr(mod, attr):
            saved.append((mod, attr, getattr(mod, attr)))
            setattr(mod, attr, r)
    from passlib import pwd

    saved.append((pwd.SequenceGenerator, "rng", pwd.SequenceGenerator.rng))
    pwd.SequenceGenerator.rng = r
    try:
        yield r
    finally:
        for mod, attr, old in saved:
            setattr(mod, attr, old)
