"""Driver:  python -m vpchk.run <ID> [--tier quick|thorough] [--replay FILE] [--jobs N] [--only TASK]

exit 0  property held on everything explored (KNOWN-FINDING lines allowed)
exit 1  'VIOLATION property=<id> replay=<path>' printed for every bucket not listed as known
exit 2  harness error ('HARNESS-ERROR ...'), never a verdict about the repository
"""

from __future__ import annotations

import argparse
import importlib
import json
import multiprocessing as mp
import os
import re
import sys
import time
import traceback

from . import common
from .common import HarnessError, Recorder, Violation, derive_seed

MAX_SAMPLES = 24


def _load(prop):
    return importlib.import_module(f"vpchk.checks.{prop.lower()}")


# --------------------------------------------------------------------------------------
# worker side
# --------------------------------------------------------------------------------------
def _worker(args):
    prop, task, seed, tier, excluded = args
    t0 = time.time()
    out = {"task": task["name"], "failures": [], "error": None}
    try:
        for k, v in (task.get("env") or {}).items():
            os.environ[k] = v
        common.setup_repo_path()
        mod = _load(prop)
        fn = getattr(mod, task["fn"])
        rec = Recorder(excluded)
        tseed = derive_seed(seed, prop, task["name"])
        for _attempt in range(Recorder.MAX_BUCKETS):
            rec.reset_counts()
            try:
                fn(rec, tseed, tier, **task.get("kw", {}))
                break
            except Violation as v:
                out["failures"].append(v.as_dict())
                rec.excluded.add(v.bucket)
            except Exception as e:  # noqa: BLE001
                # safety net: an exception that escapes from repository code outside any oracle (task set-up calling the library) is the
                # library misbehaving, not the harness: report it as a violation with the task as replay unit; harness bugs still exit 2
                if not common.raised_in_repo(e):
                    raise
                bucket = f"{prop}/unexpected-exception/task/{type(e).__name__}@{common.exc_site(e)}"
                out["failures"].append(Violation(bucket, f"{type(e).__name__} escaped from {common.exc_site(e)} while task {task['name']} prepared its cases: {str(e)[:160]}",
                                                 "task", {"task": {k: task[k] for k in ('name', 'fn', 'kw', 'env') if k in task}, "seed": seed, "tier": tier}, repr(e), "no exception").as_dict())
                break
        out["failures"].extend(rec.soft_failures)
        out["summary"] = rec.summary()
    except BaseException:  # noqa: BLE001
        out["error"] = traceback.format_exc()
    out["wall_s"] = time.time() - t0
    return out


# --------------------------------------------------------------------------------------
# parent side
# --------------------------------------------------------------------------------------
def _slug(s):
    return re.sub(r"[^A-Za-z0-9_.@-]+", "_", s)[:100]


def known_findings(prop):
    path = os.path.join(common.VERIF, "known_findings.json")
    if not os.path.exists(path):
        return []
    return [f for f in common.load_json(path)["findings"] if f["property"] == prop]


def write_replay(prop, seed, tier, failure):
    if os.path.abspath(common.REPO) == "/repo":
        d = os.path.join(common.VERIF, "replays", prop, "found")
    else:  # sensitivity runs against a scratch copy say nothing about /repo
        d = os.path.join("/tmp/vpchk-scratch-replays", prop)
    os.makedirs(d, exist_ok=True)
    body = {
        "property": prop,
        "bucket": failure["bucket"],
        "what": failure["what"],
        "oracle": failure["oracle"],
        "case": failure["case"],
        "observed": failure.get("observed"),
        "expected": failure.get("expected"),
        "seed": seed,
        "tier": tier,
    }
    txt = json.dumps(body, indent=1, sort_keys=True, ensure_ascii=True)
    name = _slug(failure["bucket"]) + "-" + common.fp(failure["case"])[:8] + ".json"
    path = os.path.join(d, name)
    with open(path, "w") as fh:
        fh.write(txt + "\n")
    return os.path.relpath(path, common.VERIF) if path.startswith(common.VERIF) else path


def run_replay_case(mod, data):
    """re-evaluate one stored case through its oracle, without Hypothesis.
    -> None if the property holds for it now, else a failure dict"""
    rec = Recorder()
    for k, v in (data.get("env") or {}).items():
        os.environ[k] = v
    if data["oracle"] == "task":  # replay unit of the worker's safety net: re-run the whole task
        c = data["case"]
        r = _worker((data["property"], c["task"], c["seed"], c["tier"], []))
        if r.get("error"):
            raise HarnessError(r["error"])
        return r["failures"][0] if r["failures"] else None
    oracle = mod.ORACLES[data["oracle"]]
    try:
        oracle(rec, common.U(data["case"]))
    except Violation as v:
        return v.as_dict()
    if rec.soft_failures:
        return rec.soft_failures[0]
    return None


def verdict(prop, failures, seed, tier):
    """print KNOWN-FINDING / VIOLATION lines; -> number of violations"""
    kf = known_findings(prop)
    open_buckets = {f["bucket"]: f for f in kf if f.get("status") == "open"}
    seen = set()
    nviol = 0
    for f in failures:
        if f["bucket"] in seen:
            continue
        seen.add(f["bucket"])
        if f["bucket"] in open_buckets:
            print(f"KNOWN-FINDING: property={prop} {open_buckets[f['bucket']]['what']} [bucket {f['bucket']}]")
            continue
        path = f.get("replay_path") or write_replay(prop, seed, tier, f)
        print(f"VIOLATION property={prop} replay={path}")
        print(f"  bucket: {f['bucket']}")
        print(f"  what:   {f['what']}")
        if f.get("observed") is not None:
            print(f"  observed: {f['observed']}")
        if f.get("expected") is not None:
            print(f"  expected: {f['expected']}")
        nviol += 1
    return nviol


def selftest_all():
    """setup-time sanity: the repo imports from the working tree, every check module imports,
    reference implementations reproduce their published vectors"""
    try:
        common.setup_repo_path()
        import hypothesis  # noqa: F401

        d = os.path.join(common.VERIF, "vpchk", "checks")
        n = 0
        for fn in sorted(os.listdir(d)):
            if re.fullmatch(r"c\d+\.py", fn):
                mod = _load(fn[:-3])
                if hasattr(mod, "selftest"):
                    mod.selftest()
                n += 1
        from . import refs

        refs.selftest()
    except Exception:
        print("HARNESS-ERROR selftest failed")
        traceback.print_exc()
        return 2
    print(f"selftest ok ({n} check modules)")
    return 0


def main(argv=None):
    ap = argparse.ArgumentParser()
    ap.add_argument("prop", nargs="?")
    ap.add_argument("--selftest", action="store_true")
    ap.add_argument("--tier", default=None)
    ap.add_argument("--replay", default=None)
    ap.add_argument("--jobs", type=int, default=int(os.environ.get("VPCHK_JOBS", "16")))
    ap.add_argument("--only", default=None, help="regex on task names (debugging)")
    ap.add_argument("--no-evidence", action="store_true")
    a = ap.parse_args(argv)
    if a.selftest or not a.prop:
        return selftest_all()
    prop = a.prop.upper()
    tier = os.environ.get("VERIF_TIER") or a.tier or "quick"
    if tier not in ("quick", "thorough"):
        tier = "quick"
    try:
        seed = int(os.environ.get("VERIF_SEED", "1"))
    except ValueError:
        seed = 1
    t0 = time.time()
    try:
        common.setup_repo_path()
        mod = _load(prop)
        if a.replay:
            data = common.load_json(a.replay)
            f = run_replay_case(mod, data)
            if f is None:
                print(f"replay {a.replay}: property holds for this case now")
                return 0
            f["replay_path"] = a.replay
            print(f"VIOLATION property={prop} replay={a.replay}")
            print(f"  bucket: {f['bucket']}\n  what:   {f['what']}")
            return 1
        if hasattr(mod, "selftest"):
            mod.selftest()
        tasks = mod.tasks(tier)
        if tier == "thorough":
            # deeper exploration: every seed-dependent task is repeated under further derived seeds (the task name feeds the seed derivation);
            # tasks whose function is listed in the module's DETERMINISTIC_FNS enumerate a fixed domain and run once
            reps = int(os.environ.get("VPCHK_THOROUGH_REPS", getattr(mod, "THOROUGH_REPS", 1)))
            det = set(getattr(mod, "DETERMINISTIC_FNS", ()))
            tasks = tasks + [dict(t, name=f"{t['name']}#r{r}") for r in range(1, reps) for t in tasks if t["fn"] not in det]
    except HarnessError as e:
        print(f"HARNESS-ERROR property={prop} {e}")
        return 2
    except Exception:
        print(f"HARNESS-ERROR property={prop} setup failed")
        traceback.print_exc()
        return 2
    if a.only:
        tasks = [t for t in tasks if re.search(a.only, t["name"])]

    failures = []
    # 1. regression tier: committed replays of fixed defects (seconds)
    regdir = os.path.join(common.VERIF, "replays", prop)
    nreg = 0
    if os.path.isdir(regdir) and not a.only:
        for fn in sorted(os.listdir(regdir)):
            if fn.endswith(".json"):
                data = common.load_json(os.path.join(regdir, fn))
                try:
                    f = run_replay_case(mod, data)
                except Exception:
                    print(f"HARNESS-ERROR property={prop} regression replay {fn} crashed")
                    traceback.print_exc()
                    return 2
                nreg += 1
                if f is not None:
                    f["replay_path"] = os.path.relpath(os.path.join(regdir, fn), common.VERIF)
                    failures.append(f)

    # 2. campaigns
    excluded = [f["bucket"] for f in failures]
    jobs = [(prop, t, seed, tier, excluded) for t in tasks]
    ctx = mp.get_context("spawn")
    results = []
    with ctx.Pool(min(a.jobs, max(1, len(jobs))), maxtasksperchild=1) as pool:
        for r in pool.imap_unordered(_worker, jobs, chunksize=1):
            results.append(r)
    results.sort(key=lambda r: r["task"])
    errors = [r for r in results if r["error"]]
    if errors:
        for r in errors:
            print(f"HARNESS-ERROR property={prop} task={r['task']}")
            print(r["error"])
        return 2

    # merge
    ev = 0
    counters = {}
    nontrivial = set()
    bulk = 0
    samples = []
    excluded_hits = {}
    sub = {}
    per_task = {}
    for r in results:
        s = r["summary"]
        ev += s["evaluations"]
        for k, v in s["counters"].items():
            counters[k] = counters.get(k, 0) + v
        nontrivial.update(s["nontrivial"])
        bulk += s["nontrivial_bulk"]
        for k, v in s["excluded_hits"].items():
            excluded_hits[k] = excluded_hits.get(k, 0) + v
        for k, v in s["sub"].items():
            sub.setdefault(k, {}).update(v)
        per_task[r["task"]] = {"evaluations": s["evaluations"], "wall_s": round(r["wall_s"], 2)}
        failures.extend(r["failures"])
    # interleave samples from different tasks/labels
    pools = []
    for r in results:
        for label, lst in r["summary"]["samples"].items():
            pools.append([{"task": r["task"], "class": label, "case": c} for c in lst])
    i = 0
    while len(samples) < MAX_SAMPLES and any(pools):
        p = pools[i % len(pools)]
        if p:
            samples.append(p.pop(0))
        i += 1
        if i > 10000:
            break

    nviol = verdict(prop, failures, seed, tier)
    wall = time.time() - t0
    kf_hits = sorted({f["bucket"] for f in failures}) if failures else []
    evidence = {
        "property_id": prop,
        "tier": tier,
        "seed": seed,
        "level": mod.LEVEL,
        "coverage": {
            "evaluations": ev,
            "distinct_nontrivial": len(nontrivial) + bulk,
            "rule": mod.RULE,
            "samples": samples,
            "classes": dict(sorted(counters.items())),
            "excluded_hits": excluded_hits,
            "failing_buckets": kf_hits,
            "regression_replays_run": nreg,
            "tasks": per_task,
            "sub": sub,
            "exhaustive": bool(getattr(mod, "EXHAUSTIVE", False)),
            "repo": common.REPO,
        },
        "assumptions": list(getattr(mod, "ASSUMPTIONS", [])),
        "wall_s": round(wall, 2),
        "violations": nviol,
    }
    if not a.no_evidence and not a.only:
        os.makedirs(os.path.join(common.VERIF, "evidence"), exist_ok=True)
        with open(os.path.join(common.VERIF, "evidence", f"{prop}.json"), "w") as fh:
            json.dump(evidence, fh, indent=1, sort_keys=True, ensure_ascii=True)
            fh.write("\n")
    print(
        f"{prop} tier={tier} seed={seed} evaluations={ev} distinct_nontrivial={len(nontrivial) + bulk} "
        f"tasks={len(tasks)} violations={nviol} wall={wall:.1f}s"
    )
    return 1 if nviol else 0


if __name__ == "__main__":
    sys.exit(main())
