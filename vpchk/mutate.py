"""Structure-aware mutation of hash strings (DESIGN.md 2.3)."""

from __future__ import annotations

import re

from hypothesis import strategies as st

ODD_CHARS = ["$", ",", "=", "0", "9", "z", "Z", "A", ".", "/", "+", "-", "_", " ", "\n", "\t", "\x00", "é", "１", "٣", "{", "}", "|", ":", "*", "!", "%", "\\"]
NUM_DECOR = ["0{}", "00{}", "+{}", "{}_", "_{}", " {}", "{} ", "{}0", "-{}", "{}.0", "0x{}", "{}e0", "１{}", "٣{}"]
BIG_NUMS = ["4294967295", "4294967296", "18446744073709551616", "99999999999999999999999", "0", "-1", ""]


def single_edits(h: str, per_pos=3):
    """deterministic sweep: every deletion, every truncation, `per_pos` substitutions at every position
    -> iterator of (label, position, mutant)"""
    alpha = sorted(set(h))
    for i in range(len(h)):
        yield "delete", i, h[:i] + h[i + 1 :]
        yield "truncate", i, h[:i]
        c = h[i]
        subs = []
        # neighbour inside the string's own alphabet (keeps the mutant in-alphabet for most fields)
        k = alpha.index(c)
        subs.append(alpha[(k + 1) % len(alpha)] if len(alpha) > 1 else "x")
        if c.isdigit():
            subs.append(str((int(c) + 1) % 10))
        elif c.isalpha():
            subs.append(c.swapcase())
            subs.append("b" if c != "b" else "c")
        else:
            subs.append("A")
        subs.append("$" if c != "$" else "!")
        seen = set()
        for s in subs[: per_pos + 1]:
            if s != c and s not in seen:
                seen.add(s)
                yield "subst", i, h[:i] + s + h[i + 1 :]
    # whole-token edits: drop / empty / duplicate every maximal run of field characters
    for mt in re.finditer(r"[A-Za-z0-9./+-]+", h):
        a, b = mt.span()
        if b - a > 1:
            yield "drop-token", a, h[:a] + h[b:]
            yield "dup-token", a, h[:b] + h[a:b] + h[b:]
        # a field grown by characters of its own kind (over-long salt / digest / number)
        yield "grow-token", b, h[:b] + h[b - 1] + h[b:]
        yield "grow-token", b, h[:b] + (h[a:b] * 3)[:3] + h[b:]
    yield "append", len(h), h + (h[-1] if h else "x")
    yield "append", len(h), h + "$"
    yield "empty", 0, ""


@st.composite
def mutants(draw, h: str, max_edits=2):
    """-> (label, mutant) where mutant is str or bytes"""
    n = draw(st.integers(1, max_edits))
    m = h
    labels = []
    for _ in range(n):
        op = draw(st.sampled_from(["subst", "subst-odd", "delete", "insert", "dup", "swap-fields", "number", "case", "truncate", "sep-dup", "sep-drop", "ident", "drop-token"]))
        L = len(m)
        if op == "subst" and L:
            i = draw(st.integers(0, L - 1))
            c = draw(st.sampled_from(sorted(set(h)) or ["x"]))
            m = m[:i] + c + m[i + 1 :]
        elif op == "subst-odd" and L:
            i = draw(st.integers(0, L - 1))
            m = m[:i] + draw(st.sampled_from(ODD_CHARS)) + m[i + 1 :]
        elif op == "delete" and L:
            i = draw(st.integers(0, L - 1))
            j = min(L, i + draw(st.sampled_from([1, 1, 1, 2, 5])))
            m = m[:i] + m[j:]
        elif op == "insert":
            i = draw(st.integers(0, L))
            m = m[:i] + draw(st.one_of(st.sampled_from(ODD_CHARS), st.sampled_from(sorted(set(h)) or ["x"]))) + m[i:]
        elif op == "dup" and L:
            i = draw(st.integers(0, L - 1))
            j = min(L, i + draw(st.integers(1, 8)))
            m = m[:j] + m[i:j] + m[j:]
        elif op == "swap-fields":
            sep = draw(st.sampled_from(["$", ",", ".", "|"]))
            parts = m.split(sep)
            if len(parts) >= 3:
                i = draw(st.integers(0, len(parts) - 2))
                parts[i], parts[i + 1] = parts[i + 1], parts[i]
                m = sep.join(parts)
        elif op == "number":
            runs = list(re.finditer(r"\d+", m))
            if runs:
                r = draw(st.sampled_from(runs))
                old = r.group()
                kind = draw(st.integers(0, 3))
                if kind == 0:
                    new = draw(st.sampled_from(NUM_DECOR)).format(old)
                elif kind == 1:
                    new = draw(st.sampled_from(BIG_NUMS))
                elif kind == 2:
                    new = str(int(old) + draw(st.sampled_from([1, -1, 42])))
                else:
                    new = old + "0"
                m = m[: r.start()] + new + m[r.end() :]
        elif op == "case":
            i = draw(st.integers(0, max(0, L - 1)))
            m = m[:i] + m[i:].swapcase() if draw(st.booleans()) else m[:i].swapcase() + m[i:]
        elif op == "truncate" and L:
            m = m[: draw(st.integers(0, L - 1))]
        elif op == "sep-dup":
            seps = [i for i, c in enumerate(m) if c in "$,.|:={}"]
            if seps:
                i = draw(st.sampled_from(seps))
                m = m[:i] + m[i] + m[i:]
        elif op == "sep-drop":
            seps = [i for i, c in enumerate(m) if c in "$,.|:={}"]
            if seps:
                i = draw(st.sampled_from(seps))
                m = m[:i] + m[i + 1 :]
        elif op == "drop-token":
            toks = list(re.finditer(r"[A-Za-z0-9./+-]+", m))
            if toks:
                t = draw(st.sampled_from(toks))
                m = m[: t.start()] + m[t.end() :]
        elif op == "ident":
            m = draw(st.sampled_from(["$2a$", "$2b$", "$2y$", "$2x$", "$2$", "$1$", "$5$", "$6$", "$P$", "$H$", "{CRYPT}", "$7$", "$scrypt$", "$pbkdf2$", "bcrypt$", ""])) + m[draw(st.integers(0, min(L, 8))) :]
        labels.append(op)
    if draw(st.integers(0, 5)) == 0:
        try:
            return "+".join(labels) + "+bytes", m.encode("utf-8")
        except UnicodeEncodeError:
            pass
    return "+".join(labels), m


def arbitrary():
    return st.one_of(
        st.text(max_size=60),
        st.binary(max_size=60),
        st.text(st.sampled_from("$./0123456789abcdefABCDEF,=_{}|*: "), max_size=120),
        st.sampled_from(["", b"", "$", "$$", "$$$", "\x00", "é", "x" * 10000, b"\xff" * 300, "$1$", "$2a$", "$5$rounds=", "{", "{}", "*", "!", "0x", "md5", "S:", "_", "$P$", "$H$", "$md5", "$md5,", "$sha1$", "$scram$", "$7$", "$scrypt$", "grub.pbkdf2.sha512.", "{FSHP", "$p5k2$", "@salt"]),
    )
