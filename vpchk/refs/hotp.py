"""HOTP/TOTP straight from RFC 4226 section 5.3 / RFC 6238 over stdlib hmac."""

import hmac
import struct


def hotp(key: bytes, counter: int, digits: int = 6, alg: str = "sha1") -> str:
    mac = hmac.new(key, struct.pack(">Q", counter), alg).digest()
    off = mac[len(mac) - 1] & 0x0F
    p = ((mac[off] & 0x7F) << 24) | (mac[off + 1] << 16) | (mac[off + 2] << 8) | mac[off + 3]
    return str(p % (10**digits)).zfill(digits)


def totp(key: bytes, t: int, period: int = 30, digits: int = 6, alg: str = "sha1") -> str:
    return hotp(key, t // period, digits, alg)


def selftest():
    k = b"12345678901234567890"
    # RFC 4226 appendix D
    exp = ["755224", "287082", "359152", "969429", "338314", "254676", "287922", "162583", "399871", "520489"]
    assert [hotp(k, i) for i in range(10)] == exp
    # RFC 6238 appendix B (8 digits)
    k256 = b"12345678901234567890123456789012"
    k512 = b"1234567890123456789012345678901234567890123456789012345678901234"
    for t, a, b, c in ((59, "94287082", "46119246", "90693936"), (1111111109, "07081804", "68084774", "25091201"), (20000000000, "65353130", "77737706", "47863826")):
        assert totp(k, t, 30, 8, "sha1") == a
        assert totp(k256, t, 30, 8, "sha256") == b
        assert totp(k512, t, 30, 8, "sha512") == c
