"""Reference implementation of every hash *format* (string in, string out), written from the
format/algorithm descriptions in docs/lib/passlib.hash.*.rst and the published specs.

ref_hash(name, secret, settings, ctx) -> str | None
    secret   : bytes (already encoded) -- text formats (nthash, lmhash...) take str via ctx-less decode
    settings : dict with the explicit settings (salt, rounds, ident, variant, ...)
    ctx      : dict of context keywords (user, realm, encoding)
    None     : this reference does not cover that combination ("not applicable")
"""

from __future__ import annotations

import base64
import hashlib
import os
import stringprep
import unicodedata

from . import des as rdes
from . import kdf
from .md4 import md4

H64 = "./0123456789ABCDEFGHIJKLMNOPQRSTUVWXYZabcdefghijklmnopqrstuvwxyz"
BC64 = "./ABCDEFGHIJKLMNOPQRSTUVWXYZabcdefghijklmnopqrstuvwxyz0123456789"
STD = "ABCDEFGHIJKLMNOPQRSTUVWXYZabcdefghijklmnopqrstuvwxyz0123456789+/"

HAMLET = open(os.path.join(os.path.dirname(__file__), "hamlet.bin"), "rb").read()


# ---- encoders ------------------------------------------------------------------------
def h64_le(data: bytes) -> str:
    out = []
    for i in range(0, len(data), 3):
        grp = data[i : i + 3]
        v = int.from_bytes(grp, "little")
        for k in range((8 * len(grp) + 5) // 6):
            out.append(H64[(v >> (6 * k)) & 63])
    return "".join(out)


def h64_le_int(v: int, nchars: int) -> str:
    return "".join(H64[(v >> (6 * k)) & 63] for k in range(nchars))


def b64_nopad(data: bytes) -> str:
    return base64.b64encode(data).decode().rstrip("=")


def ab64(data: bytes) -> str:
    return b64_nopad(data).replace("+", ".")


def to_bytes(secret, encoding="utf-8"):
    return secret.encode(encoding) if isinstance(secret, str) else secret


def to_text(secret, encoding="utf-8"):
    return secret.decode(encoding) if isinstance(secret, bytes) else secret


# ---- md5-crypt family ----------------------------------------------------------------
def _w24(b2, b1, b0, n):
    return h64_le_int((b2 << 16) | (b1 << 8) | b0, n)


def _md5_crypt_encode(f: bytes) -> str:
    out = ""
    for a, b, c in ((0, 6, 12), (1, 7, 13), (2, 8, 14), (3, 9, 15), (4, 10, 5)):
        out += _w24(f[a], f[b], f[c], 4)
    return out + _w24(0, 0, f[11], 2)


def md5_crypt_raw(pw: bytes, salt: bytes, magic: bytes) -> bytes:
    md5 = hashlib.md5
    alt = md5(pw + salt + pw).digest()
    ctx = md5(pw + magic + salt)
    n = len(pw)
    while n > 0:
        ctx.update(alt[: min(16, n)])
        n -= 16
    n = len(pw)
    while n:
        ctx.update(b"\0" if n & 1 else pw[:1])
        n >>= 1
    final = ctx.digest()
    for i in range(1000):
        c = md5()
        c.update(pw if i & 1 else final)
        if i % 3:
            c.update(salt)
        if i % 7:
            c.update(pw)
        c.update(final if i & 1 else pw)
        final = c.digest()
    return final


def md5_crypt(pw, s, ctx):
    salt = s["salt"]
    return "$1$" + salt + "$" + _md5_crypt_encode(md5_crypt_raw(pw, salt.encode(), b"$1$"))


def apr_md5_crypt(pw, s, ctx):
    salt = s["salt"]
    return "$apr1$" + salt + "$" + _md5_crypt_encode(md5_crypt_raw(pw, salt.encode(), b"$apr1$"))


# ---- sha-crypt -------------------------------------------------------------------------
def sha_crypt_raw(name: str, pw: bytes, salt: bytes, rounds: int) -> bytes:
    Hn = lambda d=b"": hashlib.new(name, d)  # noqa: E731
    dsize = Hn().digest_size
    b = Hn(pw + salt + pw).digest()
    a = Hn(pw + salt)
    n = len(pw)
    while n > dsize:
        a.update(b)
        n -= dsize
    a.update(b[:n])
    n = len(pw)
    while n:
        a.update(b if n & 1 else pw)
        n >>= 1
    a = a.digest()
    dp = Hn(pw * len(pw)).digest()
    p = (dp * (len(pw) // dsize + 1))[: len(pw)]
    ds = Hn(salt * (16 + a[0])).digest()
    sv = (ds * (len(salt) // dsize + 1))[: len(salt)]
    prev = a
    for i in range(rounds):
        c = Hn()
        c.update(p if i & 1 else prev)
        if i % 3:
            c.update(sv)
        if i % 7:
            c.update(p)
        c.update(prev if i & 1 else p)
        prev = c.digest()
    return prev


def _sha256_encode(f: bytes) -> str:
    out = ""
    a, b, c = 0, 10, 20
    for _ in range(10):
        out += _w24(f[a], f[b], f[c], 4)
        a, b, c = c + 1, a + 1, b + 1
    return out + _w24(0, f[31], f[30], 3)


def _sha512_encode(f: bytes) -> str:
    out = ""
    a, b, c = 0, 21, 42
    for _ in range(21):
        out += _w24(f[a], f[b], f[c], 4)
        a, b, c = b + 1, c + 1, a + 1
    return out + _w24(0, 0, f[63], 2)


def _sha_crypt(prefix, name, enc, pw, s):
    salt, rounds = s["salt"], s.get("rounds", 5000)
    implicit = s.get("implicit_rounds", rounds == 5000) and rounds == 5000
    cfg = prefix + ("" if implicit else f"rounds={rounds}$") + salt
    return cfg + "$" + enc(sha_crypt_raw(name, pw, salt.encode(), rounds))


def sha256_crypt(pw, s, ctx):
    return _sha_crypt("$5$", "sha256", _sha256_encode, pw, s)


def sha512_crypt(pw, s, ctx):
    return _sha_crypt("$6$", "sha512", _sha512_encode, pw, s)


# ---- sha1-crypt ------------------------------------------------------------------------
def sha1_crypt(pw, s, ctx):
    salt, rounds = s["salt"], s["rounds"]
    d = kdf.hmac("sha1", pw, salt.encode() + b"$sha1$" + str(rounds).encode())
    for _ in range(rounds - 1):
        d = kdf.hmac("sha1", pw, d)
    out = ""
    for i in range(0, 18, 3):
        out += _w24(d[i], d[i + 1], d[i + 2], 4)
    out += _w24(d[18], d[19], d[0], 4)
    return f"$sha1${rounds}${salt}${out}"


# ---- sun md5 ---------------------------------------------------------------------------
def _sun_coin(digest: bytes, rnd: int) -> int:
    def bit(n):
        n %= 128
        return (digest[n // 8] >> (n % 8)) & 1

    def byte(n):
        return digest[n % 16]

    def gen(off):
        x = 0
        for i in range(8):
            a = byte(i + off)
            b = byte(i + off + 3)
            r = a >> (b % 5)
            v = byte(r)
            if (b >> (a % 8)) & 1:
                v >>= 1
            x |= bit(v) << i
        return x

    x = gen(0)
    y = gen(8)
    if bit(rnd):
        x >>= 1
    if bit(rnd + 64):
        y >>= 1
    return bit(x) ^ bit(y)


def sun_md5_crypt(pw, s, ctx):
    salt, rounds, bare = s["salt"], s.get("rounds", 0), s.get("bare_salt", False)
    cfg = ("$md5," + f"rounds={rounds}$" if rounds else "$md5$") + salt
    feed = cfg if bare else cfg + "$"
    d = hashlib.md5(pw + feed.encode()).digest()
    for i in range(rounds + 4096):
        buf = d
        if _sun_coin(d, i):
            buf += HAMLET
        buf += str(i).encode()
        d = hashlib.md5(buf).digest()
    return cfg + ("$" if bare else "$$") + _md5_crypt_encode(d)


# ---- DES family ------------------------------------------------------------------------
def des_crypt(pw, s, ctx):
    return rdes.des_crypt(pw, s["salt"])


def bsdi_crypt(pw, s, ctx):
    return rdes.bsdi_crypt(pw, s["salt"], s["rounds"])


def bigcrypt(pw, s, ctx):
    return rdes.bigcrypt(pw, s["salt"])


def crypt16(pw, s, ctx):
    return rdes.crypt16(pw, s["salt"])


def lmhash(pw, s, ctx):
    enc = ctx.get("encoding") or "cp437"
    if isinstance(pw, str):
        raw = pw.upper().encode(enc)
    else:
        raw = pw.upper()  # documented: bytes are upper-cased as ASCII only... -> not applicable if non-ascii
        if any(b > 127 for b in pw):
            return None
    return rdes.lmhash(raw)


def oracle10(pw, s, ctx):
    return rdes.oracle10(to_text(pw), to_text(ctx["user"]))


def django_des_crypt(pw, s, ctx):
    salt = s["salt"]
    h = rdes.des_crypt(pw, salt[:2])
    return f"crypt${salt}${h}"


# ---- bcrypt family (third party: pyca bcrypt) ------------------------------------------------
def _bcrypt_raw(pw: bytes, ident: str, rounds: int, salt: str):
    import bcrypt as pyca

    if b"\0" in pw:
        return None
    if ident == "$2$":
        # $2$ cycles the key without its NUL terminator; for the empty key the original C code read the terminator itself, i.e. the key "\0" of $2a$
        if pw:
            pw = (pw * (72 // len(pw) + 1))[:72]
        use = "$2a$"
    elif ident in ("$2a$", "$2b$", "$2y$"):
        use = ident
    else:
        return None
    cfg = f"{use}{rounds:02d}${salt}".encode()
    out = pyca.hashpw(pw[:72], cfg).decode()
    if not out.startswith(cfg.decode()):
        return None  # library normalised the salt padding bits: caller gave a non-canonical salt
    return out[len(cfg) :]


def bcrypt(pw, s, ctx):
    ident = s.get("ident", "$2b$")
    chk = _bcrypt_raw(pw, ident, s["rounds"], s["salt"])
    if chk is None:
        return None
    return f"{ident}{s['rounds']:02d}${s['salt']}{chk}"


def bcrypt_sha256(pw, s, ctx):
    version = s.get("version", 2)
    ident = s.get("ident", "$2b$")
    salt, rounds = s["salt"], s["rounds"]
    if version == 1:
        key = base64.b64encode(hashlib.sha256(pw).digest())
    else:
        key = base64.b64encode(kdf.hmac("sha256", salt.encode("ascii"), pw))
    chk = _bcrypt_raw(key, ident, rounds, salt)
    if chk is None:
        return None
    t = ident.strip("$")
    if version == 1:
        return f"$bcrypt-sha256${t},{rounds}${salt}${chk}"
    return f"$bcrypt-sha256$v=2,t={t},r={rounds}${salt}${chk}"


def django_bcrypt(pw, s, ctx):
    h = bcrypt(pw, s, ctx)
    return None if h is None else "bcrypt$" + h


def django_bcrypt_sha256(pw, s, ctx):
    key = hashlib.sha256(pw).hexdigest().encode()
    h = bcrypt(key, s, ctx)
    return None if h is None else "bcrypt_sha256$" + h


# ---- pbkdf2 family -----------------------------------------------------------------------
def _pbkdf2_mcf(ident, alg, size):
    def f(pw, s, ctx):
        salt, rounds = s["salt"], s["rounds"]
        return f"{ident}{rounds}${ab64(salt)}${ab64(kdf.pbkdf2(alg, pw, salt, rounds, size))}"

    return f


pbkdf2_sha1 = _pbkdf2_mcf("$pbkdf2$", "sha1", 20)
pbkdf2_sha256 = _pbkdf2_mcf("$pbkdf2-sha256$", "sha256", 32)
pbkdf2_sha512 = _pbkdf2_mcf("$pbkdf2-sha512$", "sha512", 64)
ldap_pbkdf2_sha1 = _pbkdf2_mcf("{PBKDF2}", "sha1", 20)
ldap_pbkdf2_sha256 = _pbkdf2_mcf("{PBKDF2-SHA256}", "sha256", 32)
ldap_pbkdf2_sha512 = _pbkdf2_mcf("{PBKDF2-SHA512}", "sha512", 64)


def cta_pbkdf2_sha1(pw, s, ctx):
    salt, rounds = s["salt"], s["rounds"]
    chk = kdf.pbkdf2("sha1", pw, salt, rounds, 20)
    e = lambda b: base64.urlsafe_b64encode(b).decode()  # noqa: E731
    return f"$p5k2${rounds:x}${e(salt)}${e(chk)}"


def dlitz_pbkdf2_sha1(pw, s, ctx):
    salt, rounds = s["salt"], s["rounds"]
    cfg = "$p5k2$" + ("" if rounds == 400 else f"{rounds:x}") + "$" + salt
    chk = kdf.pbkdf2("sha1", pw, cfg.encode(), rounds, 24)
    return cfg + "$" + ab64(chk)


def atlassian_pbkdf2_sha1(pw, s, ctx):
    salt = s["salt"]
    return "{PKCS5S2}" + base64.b64encode(salt + kdf.pbkdf2("sha1", pw, salt, 10000, 32)).decode()


def grub_pbkdf2_sha512(pw, s, ctx):
    salt, rounds = s["salt"], s["rounds"]
    return f"grub.pbkdf2.sha512.{rounds}.{salt.hex().upper()}.{kdf.pbkdf2('sha512', pw, salt, rounds, 64).hex().upper()}"


def _django_pbkdf2(ident, alg, size):
    def f(pw, s, ctx):
        salt, rounds = s["salt"], s["rounds"]
        chk = kdf.pbkdf2(alg, pw, salt.encode(), rounds, size)
        return f"{ident}${rounds}${salt}${base64.b64encode(chk).decode()}"

    return f


django_pbkdf2_sha1 = _django_pbkdf2("pbkdf2_sha1", "sha1", 20)
django_pbkdf2_sha256 = _django_pbkdf2("pbkdf2_sha256", "sha256", 32)


def django_salted_md5(pw, s, ctx):
    return f"md5${s['salt']}${hashlib.md5(s['salt'].encode() + pw).hexdigest()}"


def django_salted_sha1(pw, s, ctx):
    return f"sha1${s['salt']}${hashlib.sha1(s['salt'].encode() + pw).hexdigest()}"


# ---- SASLprep (RFC 4013 over the stringprep tables) -----------------------------------------
def saslprep(text: str) -> str:
    # map: B.1 -> nothing, C.1.2 -> space
    out = []
    for ch in text:
        if stringprep.in_table_b1(ch):
            continue
        out.append(" " if stringprep.in_table_c12(ch) else ch)
    text = unicodedata.normalize("NFKC", "".join(out))
    if not text:
        return text
    prohibited = (
        stringprep.in_table_c12,
        stringprep.in_table_c21,
        stringprep.in_table_c22,
        stringprep.in_table_c3,
        stringprep.in_table_c4,
        stringprep.in_table_c5,
        stringprep.in_table_c6,
        stringprep.in_table_c7,
        stringprep.in_table_c8,
        stringprep.in_table_c9,
        stringprep.in_table_a1,  # unassigned code points (stored strings)
    )
    for ch in text:
        for t in prohibited:
            if t(ch):
                raise ValueError("prohibited character")
    has_r = any(stringprep.in_table_d1(ch) for ch in text)
    has_l = any(stringprep.in_table_d2(ch) for ch in text)
    if has_r:
        if has_l:
            raise ValueError("mixed bidi")
        if not (stringprep.in_table_d1(text[0]) and stringprep.in_table_d1(text[-1])):
            raise ValueError("bidi edges")
    return text


SCRAM_ALGS = {"sha-1": "sha1", "sha-256": "sha256", "sha-512": "sha512", "md5": "md5", "sha-224": "sha224", "sha-384": "sha384"}


def scram(pw, s, ctx):
    salt, rounds, algs = s["salt"], s["rounds"], s.get("algs", ["sha-1", "sha-256", "sha-512"])
    try:
        text = to_text(pw)
    except UnicodeDecodeError:
        return None
    p = saslprep(text).encode("utf-8")
    parts = []
    for a in sorted(algs):
        if a not in SCRAM_ALGS:
            return None
        parts.append(f"{a}={ab64(kdf.pbkdf2(SCRAM_ALGS[a], p, salt, rounds))}")
    return f"$scram${rounds}${ab64(salt)}${','.join(parts)}"


# ---- scrypt -------------------------------------------------------------------------------
def scrypt(pw, s, ctx):
    ident = s.get("ident", "$scrypt$")
    salt, ln, r, p = s["salt"], s["rounds"], s.get("block_size", 8), s.get("parallelism", 1)
    try:
        chk = hashlib.scrypt(pw, salt=salt, n=1 << ln, r=r, p=p, dklen=32, maxmem=2**31 - 1)
    except (ValueError, MemoryError):
        if (1 << ln) * r * p <= 4096:
            chk = kdf.scrypt(pw, salt, 1 << ln, r, p, 32)
        else:
            return None
    if ident == "$scrypt$":
        return f"$scrypt$ln={ln},r={r},p={p}${b64_nopad(salt)}${b64_nopad(chk)}"
    return "$7$" + H64[ln] + h64_le_int(r, 5) + h64_le_int(p, 5) + salt.decode("ascii") + "$" + h64_le(chk)


# ---- simple digests --------------------------------------------------------------------------
def phpass(pw, s, ctx):
    ident, salt, rounds = s.get("ident", "$P$"), s["salt"], s["rounds"]
    d = hashlib.md5(salt.encode() + pw).digest()
    for _ in range(1 << rounds):
        d = hashlib.md5(d + pw).digest()
    return ident + H64[rounds] + salt + h64_le(d)


FSHP = {0: "sha1", 1: "sha256", 2: "sha384", 3: "sha512"}


def fshp(pw, s, ctx):
    variant, salt, rounds = int(s.get("variant", 1)), s["salt"], s["rounds"]
    alg = FSHP[variant]
    d = kdf.pbkdf1(alg, salt, pw, rounds)  # quirk: salt is the pbkdf1 password, password the salt
    return "{FSHP%d|%d|%d}" % (variant, len(salt), rounds) + base64.b64encode(salt + d).decode()


def _cisco(pw, user, asa):
    limit = 32 if asa else 16
    if len(pw) > limit:
        return None
    buf = pw
    if user and not (asa and len(pw) >= 28):
        u = to_bytes(user)
        if u:
            buf += (u * 4)[:4]
    # docs say "16 or more bytes"; the vectors confirmed on an ASA 9.6 device (12-char password + 4-char user
    # hashes like PIX) show the switch happens above 16 bytes
    size = 32 if asa and len(buf) > 16 else 16
    buf = (buf + b"\0" * size)[:size]
    d = hashlib.md5(buf).digest()
    kept = bytes(b for i, b in enumerate(d) if i % 4 != 3)
    return h64_le(kept)


def cisco_pix(pw, s, ctx):
    return _cisco(pw, ctx.get("user"), False)


def cisco_asa(pw, s, ctx):
    return _cisco(pw, ctx.get("user"), True)


def cisco_type7(pw, s, ctx):
    magic = b"dsfd;kfoA,.iyewrkldJKDHSUBsgvca69834ncxv9873254k;fg87"
    salt = s["salt"]
    return "%02d" % salt + "".join("%02X" % (b ^ magic[(i + salt) % 53]) for i, b in enumerate(pw))


def mysql323(pw, s, ctx):
    nr, add, nr2 = 1345345333, 7, 0x12345671
    M = 0xFFFFFFFF
    for c in pw:
        if c in (0x20, 0x09):
            continue
        nr ^= ((((nr & 63) + add) * c) + (nr << 8)) & M
        nr2 = (nr2 + (((nr2 << 8) & M) ^ nr)) & M
        add = (add + c) & M
    return "%08x%08x" % (nr & 0x7FFFFFFF, nr2 & 0x7FFFFFFF)


def mysql41(pw, s, ctx):
    return "*" + hashlib.sha1(hashlib.sha1(pw).digest()).hexdigest().upper()


def _utf16(pw):
    return to_text(pw).encode("utf-16-le")


def mssql2000(pw, s, ctx):
    salt = s["salt"]
    t = to_text(pw)
    a = hashlib.sha1(t.encode("utf-16-le") + salt).hexdigest()
    b = hashlib.sha1(t.upper().encode("utf-16-le") + salt).hexdigest()
    return "0x0100" + (salt.hex() + a + b).upper()


def mssql2005(pw, s, ctx):
    salt = s["salt"]
    return "0x0100" + (salt.hex() + hashlib.sha1(_utf16(pw) + salt).hexdigest()).upper()


def oracle11(pw, s, ctx):
    salt = s["salt"]  # 20 hex chars
    return "S:" + hashlib.sha1(pw + bytes.fromhex(salt)).hexdigest().upper() + salt.upper()


def postgres_md5(pw, s, ctx):
    return "md5" + hashlib.md5(pw + to_bytes(ctx["user"])).hexdigest()


def _hex(alg):
    return lambda pw, s, ctx: (md4(pw).hex() if alg == "md4" else hashlib.new(alg, pw).hexdigest())


hex_md4, hex_md5, hex_sha1, hex_sha256, hex_sha512 = (_hex(a) for a in ("md4", "md5", "sha1", "sha256", "sha512"))


def ldap_md5(pw, s, ctx):
    return "{MD5}" + base64.b64encode(hashlib.md5(pw).digest()).decode()


def ldap_sha1(pw, s, ctx):
    return "{SHA}" + base64.b64encode(hashlib.sha1(pw).digest()).decode()


def _ldap_salted(prefix, alg):
    return lambda pw, s, ctx: prefix + base64.b64encode(hashlib.new(alg, pw + s["salt"]).digest() + s["salt"]).decode()


ldap_salted_md5 = _ldap_salted("{SMD5}", "md5")
ldap_salted_sha1 = _ldap_salted("{SSHA}", "sha1")
ldap_salted_sha256 = _ldap_salted("{SSHA256}", "sha256")
ldap_salted_sha512 = _ldap_salted("{SSHA512}", "sha512")


def ldap_hex_md5(pw, s, ctx):
    return "{MD5}" + hashlib.md5(pw).hexdigest()


def ldap_hex_sha1(pw, s, ctx):
    return "{SHA}" + hashlib.sha1(pw).hexdigest()


def htdigest(pw, s, ctx):
    enc = ctx.get("encoding") or "utf-8"
    u, r = to_bytes(ctx["user"], enc), to_bytes(ctx["realm"], enc)
    return hashlib.md5(u + b":" + r + b":" + to_bytes(pw, enc)).hexdigest()


def nthash(pw, s, ctx):
    return md4(_utf16(pw)).hex()


def bsd_nthash(pw, s, ctx):
    return "$3$$" + nthash(pw, s, ctx)


def msdcc(pw, s, ctx):
    return md4(md4(_utf16(pw)) + to_text(ctx["user"]).lower().encode("utf-16-le")).hex()


def msdcc2(pw, s, ctx):
    u = to_text(ctx["user"]).lower().encode("utf-16-le")
    return kdf.pbkdf2("sha1", md4(md4(_utf16(pw)) + u), u, 10240, 16).hex()


def _wrap(prefix, inner):
    def f(pw, s, ctx):
        h = inner(pw, s, ctx)
        return None if h is None else prefix + h

    return f


REF = {
    k: v
    for k, v in list(globals().items())
    if callable(v) and not k.startswith("_") and k not in ("saslprep", "to_bytes", "to_text", "ab64", "b64_nopad", "h64_le", "h64_le_int", "md4", "md5_crypt_raw", "sha_crypt_raw")
}
for _n in ("md5_crypt", "sha1_crypt", "sha256_crypt", "sha512_crypt", "des_crypt", "bsdi_crypt", "bcrypt"):
    REF["ldap_" + _n] = _wrap("{CRYPT}", REF[_n])


#: references that interpret the password as text (they accept str or UTF-8 bytes themselves)
TEXT_REFS = {"lmhash", "oracle10", "nthash", "bsd_nthash", "msdcc", "msdcc2", "mssql2000", "mssql2005", "scram",
             "htdigest", "plaintext", "ldap_plaintext", "roundup_plaintext"}


def ref_hash(name, secret, settings=None, ctx=None):
    """secret may be str or bytes; byte-oriented formats get the UTF-8 encoding of a str"""
    f = REF.get(name)
    if f is None:
        return None
    if isinstance(secret, str) and name not in TEXT_REFS:
        secret = secret.encode("utf-8")
    return f(secret, settings or {}, ctx or {})


# ---- selftest against published / documented vectors -----------------------------------------
def selftest():
    T = ref_hash
    # md5-crypt (PHK / docs), apr
    assert T("md5_crypt", b"password", {"salt": "5pZSV9va"}) == "$1$5pZSV9va$azfrPr6af3Fc7dLblQXVa0"
    assert T("apr_md5_crypt", b"password", {"salt": "EYNmDDAV"}) .startswith("$apr1$EYNmDDAV$")
    # Drepper's sha-crypt examples
    assert T("sha256_crypt", b"Hello world!", {"salt": "saltstring", "rounds": 5000}) == "$5$saltstring$5B8vYYiY.CVt1RlTTf8KbXBH3hsxY/GNooZaBBGWEc5"
    assert T("sha512_crypt", b"Hello world!", {"salt": "saltstring", "rounds": 5000}) == (
        "$6$saltstring$svn8UoSVapNtMuq1ukKS4tPQd8iKwSMHWjl/O817G3uBnIFNjnQJuesI68u4OTLiBFdcbYEdFCoEOfaS35inz1"
    )
    assert T("sha256_crypt", b"Hello world!", {"salt": "saltstringsaltst", "rounds": 10000}) == (
        "$5$rounds=10000$saltstringsaltst$3xv.VbSHBb41AL9AvLeujZkZRBAwqFMz2.opqey6IcA"
    )
    assert T("sha1_crypt", b"password", {"salt": "jtNX3nZ2", "rounds": 40000}) == "$sha1$40000$jtNX3nZ2$hBNaIXkt4wBI2o5rsi8KejSjNqIq"
    # NOTE: the example in docs/lib/passlib.hash.sun_md5_crypt.rst ($md5,rounds=5000$GUBv0xjJ$$mSwgIswdjlTY0YxV7HBVm0 for
    # "passwd") is reproduced by neither libxcrypt nor passlib; libxcrypt gives ...$$.CELi7blTxp3uq3U/gb171 (cross-checked below)
    assert T("sun_md5_crypt", b"passwd", {"salt": "GUBv0xjJ", "rounds": 5000}) == "$md5,rounds=5000$GUBv0xjJ$$.CELi7blTxp3uq3U/gb171"
    assert T("phpass", b"password", {"salt": "ohUJ.1sd", "rounds": 10}) == "$P$8ohUJ.1sdFw09/bMaAQPTGDNi2BIUt1"
    assert T("cisco_pix", b"password", {}, {"user": ""}) == "NuLKvvWGg.x9HEKO"
    assert T("cisco_type7", b"password", {"salt": 4}) == "044B0A151C36435C0D"
    # vectors confirmed on an ASA 9.6 device (tests/test_handlers_cisco.py)
    assert T("cisco_asa", b"0123456789ab", {}, {"user": "user"}) == "f.T4BKdzdNkjxQl7"
    assert T("cisco_asa", b"0123456789ab", {}, {"user": "365"}) == "qjgo3kNgTVxExbno"
    assert T("cisco_asa", b"0123456789abc", {}, {"user": "user"}) == "8Q/FZeam5ai1A47p"
    assert T("cisco_asa", b"0123456789abcd", {}, {"user": "adm"}) == "RtOmSeoCs4AUdZqZ"
    assert T("cisco_pix", b"0123456789abc", {}, {"user": "user"}) == "f4/.SALxqDo59mfV"
    assert T("cisco_asa", b"0123456789abcde", {}, {"user": "365"}) == "QmDsGwCRBbtGEKqM"
    assert T("cisco_pix", b"0123456789abcdef", {}, {"user": ""}) == ".7nfVBEIEu4KbF/1"
    assert T("mysql323", b"password") == "5d2e19393cc5ef67"
    assert T("mysql41", b"password") == "*2470C0C06DEE42FD1618BB99005ADCA2EC9D1E19"
    assert T("msdcc", b"password", {}, {"user": "Administrator"}) == "25fd08fa89795ed54207e6e8442a6ca0"
    assert T("msdcc2", b"password", {}, {"user": "Administrator"}) == "4c253e4b65c007a8cd683ea57bc43c76"
    assert T("nthash", b"password") == "8846f7eaee8fb117ad06bdd830b7586c"
    assert T("postgres_md5", b"password", {}, {"user": "username"}) == "md55a231fcdb710d73268c4f44283487ba2"
    assert T("ldap_md5", b"password") == "{MD5}X03MO1qnZdYdgyfeuILPmQ=="
    assert T("ldap_sha1", b"password") == "{SHA}W6ph5Mm5Pz8GgiULbPgzG37mj9g="
    assert T("dlitz_pbkdf2_sha1", b"password", {"salt": ".pPqsEwHD7MiECU0", "rounds": 10000}) == "$p5k2$2710$.pPqsEwHD7MiECU0$b8TQ5AMQemtlaSgegw5Je.JBE3QQhLbO"
    assert T("cta_pbkdf2_sha1", b"password", {"salt": base64.urlsafe_b64decode("oX9ZZOcNgYoAsYL-8bqxKg=="), "rounds": 10000}) == (
        "$p5k2$2710$oX9ZZOcNgYoAsYL-8bqxKg==$AU2JLf2rNxWoZxWxRCluY0u6h6c="
    )
    assert T("fshp", b"password", {"variant": 1, "rounds": 16384, "salt": bytes.fromhex("3eda2a70651eb66544cbfb91f3bd794c")}) == (
        "{FSHP1|16|16384}PtoqcGUetmVEy/uR8715TNqKa8+teMF9qZO1lA9lJNUm1EQBLPZ+qPRLeEPHqy6C"
    )
    assert T("bcrypt_sha256", b"password", {"salt": "n79VH.0Q2TMWmt3Oqt9uku", "rounds": 12, "version": 2}) == (
        "$bcrypt-sha256$v=2,t=2b,r=12$n79VH.0Q2TMWmt3Oqt9uku$Kq4Noyk3094Y2QlB8NdRT8SvGiI4ft2"
    )
    assert T("bcrypt", b"U*U*U", {"ident": "$2a$", "rounds": 5, "salt": "XXXXXXXXXXXXXXXXXXXXXO"}) == (
        "$2a$05$XXXXXXXXXXXXXXXXXXXXXOAcXxm9kjPGEMsLznoKqmqw7tc8WCx4a"
    )
    assert T("scrypt", b"password", {"salt": base64.b64decode("aM15713r3Xsvxbi31lqr1Q=="), "rounds": 16, "block_size": 8, "parallelism": 1}) in (
        "$scrypt$ln=16,r=8,p=1$aM15713r3Xsvxbi31lqr1Q$nFNh2CVHVjNldFVKDHDlm4CbdRSCdEBsjjJxD+iCs5E", None)
    assert saslprep("I­X") == "IX" and saslprep("Ⅸ") == "IX" and saslprep("ª") == "a"
    # third party cross checks
    try:
        import legacycrypt
    except ImportError:
        legacycrypt = None
    if legacycrypt:
        def x(cfg, pw="pässword"):
            r = legacycrypt.crypt(pw, cfg)
            return r if r and not r.startswith("*") else None

        pw = "pässword".encode()
        for got, exp in (
            (T("md5_crypt", pw, {"salt": "ab./"}), x("$1$ab./$")),
            (T("sha256_crypt", pw, {"salt": "abc", "rounds": 1001}), x("$5$rounds=1001$abc$")),
            (T("sha512_crypt", pw, {"salt": "abcdefghijklmnop", "rounds": 5000}), x("$6$abcdefghijklmnop$")),
            (T("sha1_crypt", pw, {"salt": "abcd", "rounds": 77}), x("$sha1$77$abcd$")),
            (T("sun_md5_crypt", pw, {"salt": "abcd", "rounds": 3}), x("$md5,rounds=3$abcd$")),
            (T("sun_md5_crypt", pw, {"salt": "abcd", "rounds": 0}), x("$md5$abcd$")),
            # libxcrypt widens bytes naively instead of decoding UTF-8: comparable for ASCII only
            (T("bsd_nthash", b"password"), x("$3$", "password")),
            (T("scrypt", pw, {"ident": "$7$", "salt": b"abcdefgh", "rounds": 4, "block_size": 2, "parallelism": 1}), x("$7$2" + h64_le_int(2, 5) + h64_le_int(1, 5) + "abcdefgh$")),
        ):
            assert exp is None or got == exp, (got, exp)


# ---- plaintext family and settings normalisation (appended) --------------------------------
def plaintext(pw, s, ctx):
    return to_text(pw, ctx.get("encoding") or "utf-8")


def ldap_plaintext(pw, s, ctx):
    return to_text(pw, ctx.get("encoding") or "utf-8")


def roundup_plaintext(pw, s, ctx):
    return "{plaintext}" + to_text(pw, ctx.get("encoding") or "utf-8")


REF.update(plaintext=plaintext, ldap_plaintext=ldap_plaintext, roundup_plaintext=roundup_plaintext)

_FSHP_NAMES = {"sha1": 0, "sha256": 1, "sha384": 2, "sha512": 3}


def norm_settings(name, s):
    """using()-style keywords -> the explicit settings the reference functions take"""
    s = dict(s)
    base = name[5:] if name.startswith("ldap_") and name[5:] in ("bcrypt",) else name
    if "ident" in s:
        i = s["ident"]
        if not i.startswith("$"):
            s["ident"] = "$" + i + "$"
    if name in ("bcrypt", "ldap_bcrypt", "django_bcrypt", "django_bcrypt_sha256", "bcrypt_sha256") and "ident" not in s:
        s["ident"] = "$2b$"
    if name == "scram":
        a = s.get("algs")
        if isinstance(a, str):
            s["algs"] = [x.strip() for x in a.split(",")]
        elif a is None:
            s["algs"] = ["sha-1", "sha-256", "sha-512"]
    if name == "fshp" and "variant" in s:
        v = s["variant"]
        s["variant"] = _FSHP_NAMES[v] if v in _FSHP_NAMES else int(v)
    return s
