"""Independent reference implementations (DESIGN.md 2.1).  selftest() checks them against published vectors."""


def selftest():
    import importlib
    import pkgutil

    for m in pkgutil.iter_modules(__path__):
        mod = importlib.import_module(f"{__name__}.{m.name}")
        if hasattr(mod, "selftest"):
            mod.selftest()
