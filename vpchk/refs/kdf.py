"""HMAC (RFC 2104), PBKDF1/PBKDF2 (RFC 2898), scrypt (RFC 7914) written out plainly."""
import hashlib
import struct

from .md4 import md4 as _md4


class _MD4:
    digest_size = 16
    block_size = 64

    def __init__(self, data=b""):
        self._buf = bytes(data)

    def update(self, data):
        self._buf += bytes(data)

    def digest(self):
        return _md4(self._buf)


def new_hash(name, data=b""):
    name = name.lower().replace("-", "").replace("_", "")
    if name == "md4":
        return _MD4(data)
    return hashlib.new(name, data)


def hsize(name):
    h = new_hash(name)
    return h.digest_size, h.block_size


def H(name, data):
    return new_hash(name, data).digest()


def hmac(name, key: bytes, msg: bytes) -> bytes:
    dsize, bsize = hsize(name)
    if len(key) > bsize:
        key = H(name, key)
    key = key + b"\0" * (bsize - len(key))
    ipad = bytes(b ^ 0x36 for b in key)
    opad = bytes(b ^ 0x5C for b in key)
    return H(name, opad + H(name, ipad + msg))


def pbkdf1(name, secret: bytes, salt: bytes, rounds: int, keylen=None) -> bytes:
    t = H(name, secret + salt)
    for _ in range(rounds - 1):
        t = H(name, t)
    return t if keylen is None else t[:keylen]


def pbkdf2(name, secret: bytes, salt: bytes, rounds: int, keylen=None) -> bytes:
    dsize, _ = hsize(name)
    if keylen is None:
        keylen = dsize
    out = b""
    i = 1
    while len(out) < keylen:
        u = hmac(name, secret, salt + struct.pack(">I", i))
        t = int.from_bytes(u, "big")
        for _ in range(rounds - 1):
            u = hmac(name, secret, u)
            t ^= int.from_bytes(u, "big")
        out += t.to_bytes(dsize, "big")
        i += 1
    return out[:keylen]


# ---- scrypt -------------------------------------------------------------------------
def _rotl(x, n):
    return ((x << n) & 0xFFFFFFFF) | (x >> (32 - n))


def salsa20_8(block: bytes) -> bytes:
    inp = list(struct.unpack("<16I", block))
    x = inp[:]

    def qr(a, b, c, d):
        x[b] ^= _rotl((x[a] + x[d]) & 0xFFFFFFFF, 7)
        x[c] ^= _rotl((x[b] + x[a]) & 0xFFFFFFFF, 9)
        x[d] ^= _rotl((x[c] + x[b]) & 0xFFFFFFFF, 13)
        x[a] ^= _rotl((x[d] + x[c]) & 0xFFFFFFFF, 18)

    for _ in range(4):
        qr(0, 4, 8, 12)
        qr(5, 9, 13, 1)
        qr(10, 14, 2, 6)
        qr(15, 3, 7, 11)
        qr(0, 1, 2, 3)
        qr(5, 6, 7, 4)
        qr(10, 11, 8, 9)
        qr(15, 12, 13, 14)
    return struct.pack("<16I", *[(a + b) & 0xFFFFFFFF for a, b in zip(x, inp)])


def block_mix(b: bytes, r: int) -> bytes:
    x = b[-64:]
    ys = []
    for i in range(2 * r):
        x = salsa20_8(bytes(p ^ q for p, q in zip(x, b[64 * i : 64 * i + 64])))
        ys.append(x)
    return b"".join(ys[0::2]) + b"".join(ys[1::2])


def romix(b: bytes, n: int, r: int) -> bytes:
    v = []
    x = b
    for _ in range(n):
        v.append(x)
        x = block_mix(x, r)
    for _ in range(n):
        j = int.from_bytes(x[-64:-56], "little") % n
        x = block_mix(bytes(p ^ q for p, q in zip(x, v[j])), r)
    return x


def scrypt(secret: bytes, salt: bytes, n: int, r: int, p: int, keylen: int) -> bytes:
    b = pbkdf2("sha256", secret, salt, 1, p * 128 * r)
    out = b"".join(romix(b[i * 128 * r : (i + 1) * 128 * r], n, r) for i in range(p))
    return pbkdf2("sha256", secret, out, 1, keylen)


def selftest():
    import hmac as _hmac

    # RFC 2202 / 4231
    assert hmac("md5", b"Jefe", b"what do ya want for nothing?").hex() == "750c783e6ab0b503eaa86e310a5db738"
    assert hmac("sha1", b"\x0b" * 20, b"Hi There").hex() == "b617318655057264e28bc0b6fb378c8ef146be00"
    assert hmac("sha256", b"\xaa" * 131, b"Test Using Larger Than Block-Size Key - Hash Key First").hex() == (
        "60e431591ee0b67f0d8a26aacbf5b77f8e0bc6213728c5140546040f0ee37f54"
    )
    for name in ("md5", "sha1", "sha224", "sha256", "sha384", "sha512"):
        for klen in (0, 1, 63, 64, 65, 127, 128, 129, 200):
            assert hmac(name, b"k" * klen, b"msg") == _hmac.new(b"k" * klen, b"msg", name).digest()
    # RFC 6070
    assert pbkdf2("sha1", b"password", b"salt", 1, 20).hex() == "0c60c80f961f0e71f3a9b524af6012062fe037a6"
    assert pbkdf2("sha1", b"password", b"salt", 2, 20).hex() == "ea6c014dc72d6f8ccd1ed92ace1d41f0d8de8957"
    assert pbkdf2("sha1", b"passwordPASSWORDpassword", b"saltSALTsaltSALTsaltSALTsaltSALTsalt", 4096, 25).hex() == (
        "3d2eec4fe41c849b80c8d83662c0e44a8b291a964cf2f07038"
    )
    assert pbkdf2("sha512", b"pw", b"s", 3, 100) == hashlib.pbkdf2_hmac("sha512", b"pw", b"s", 3, 100)
    # RFC 7914 sections 8..12
    inp = bytes.fromhex(
        "7e879a214f3ec9867ca940e641718f26baee555b8c61c1b50df846116dcd3b1dee24f319df9b3d8514121e4b5ac5aa3276021d2909c74829edebc68db8b8c25e"
    )
    assert salsa20_8(inp).hex() == (
        "a41f859c6608cc993b81cacb020cef05044b2181a2fd337dfd7b1c6396682f29b4393168e3c9e6bcfe6bc5b7a06d96bae424cc102c91745c24ad673dc7618f81"
    )
    assert scrypt(b"", b"", 16, 1, 1, 64).hex() == (
        "77d6576238657b203b19ca42c18a0497f16b4844e3074ae8dfdffa3fede21442fcd0069ded0948f8326a753a0fc81f17e8d3e0fb2e0d3628cf35e20c38d18906"
    )
    assert scrypt(b"password", b"NaCl", 64, 2, 2, 40) == hashlib.scrypt(b"password", salt=b"NaCl", n=64, r=2, p=2, dklen=40)
    assert pbkdf1("sha1", b"password", bytes.fromhex("78578E5A5D63CB06"), 1000, 16).hex() == "dc19847e05c64d2faf10ebfb4a3d2a20"
