"""Third-party implementations available on this host: libxcrypt (via legacycrypt), Django hashers.

Every function returns None when the third party is not applicable to the case (missing, refuses
the input, different input conventions) -- never an exception."""

from __future__ import annotations

H64 = "./0123456789ABCDEFGHIJKLMNOPQRSTUVWXYZabcdefghijklmnopqrstuvwxyz"

try:
    import legacycrypt as _lc
except Exception:  # noqa: BLE001
    _lc = None


def _le(v, n):
    return "".join(H64[(v >> (6 * k)) & 63] for k in range(n))


def crypt_config(name, s):
    name = name[5:] if name.startswith("ldap_") else name
    if name == "des_crypt":
        return s["salt"]
    if name == "bsdi_crypt":
        return "_" + _le(s["rounds"], 4) + s["salt"]
    if name == "md5_crypt":
        return "$1$" + s["salt"] + "$"
    if name in ("sha256_crypt", "sha512_crypt"):
        p = "$5$" if name == "sha256_crypt" else "$6$"
        r = s.get("rounds", 5000)
        return p + ("" if r == 5000 and s.get("implicit_rounds", True) else f"rounds={r}$") + s["salt"] + "$"
    if name == "sha1_crypt":
        return f"$sha1${s['rounds']}${s['salt']}$"
    if name == "sun_md5_crypt":
        if s.get("bare_salt"):
            return None
        r = s.get("rounds", 0)
        return ("$md5," + f"rounds={r}$" if r else "$md5$") + s["salt"] + "$"
    if name == "bcrypt":
        if s.get("ident", "$2b$") == "$2$":
            return None
        return f"{s.get('ident', '$2b$')}{s['rounds']:02d}${s['salt']}"
    if name == "bsd_nthash":
        return "$3$"
    if name == "scrypt" and s.get("ident") == "$7$":
        return "$7$" + H64[s["rounds"]] + _le(s.get("block_size", 8), 5) + _le(s.get("parallelism", 1), 5) + s["salt"].decode("ascii") + "$"
    return None


def os_crypt(name, secret: bytes, s):
    """hash string produced by the host's crypt() or None"""
    if _lc is None or b"\0" in secret:
        return None
    try:
        text = secret.decode("utf-8")
    except UnicodeDecodeError:
        return None
    if name.endswith("nthash") and not text.isascii():
        return None
    try:
        cfg = crypt_config(name, s)
    except Exception:  # noqa: BLE001
        return None
    if cfg is None:
        return None
    try:
        out = _lc.crypt(text, cfg)
    except Exception:  # noqa: BLE001
        return None
    if not out or out.startswith("*") or len(out) < len(cfg):
        return None
    if name in ("des_crypt", "ldap_des_crypt", "bsdi_crypt", "ldap_bsdi_crypt", "bcrypt", "ldap_bcrypt") and not out.startswith(cfg):
        return None
    return "{CRYPT}" + out if name.startswith("ldap_") else out


def os_crypt_supports(name):
    probe = {
        "des_crypt": {"salt": "ab"},
        "bsdi_crypt": {"salt": "abcd", "rounds": 3},
        "md5_crypt": {"salt": "abcd"},
        "sha256_crypt": {"salt": "abcd", "rounds": 1000},
        "sha512_crypt": {"salt": "abcd", "rounds": 1000},
        "sha1_crypt": {"salt": "abcd", "rounds": 3},
        "sun_md5_crypt": {"salt": "abcd", "rounds": 1},
        "bcrypt": {"salt": "abcdefghijklmnopqrstuu", "rounds": 4, "ident": "$2b$"},
    }
    n = name[5:] if name.startswith("ldap_") else name
    return n in probe and os_crypt(n, b"test", probe[n]) is not None


_dj = None


def _django():
    global _dj
    if _dj is None:
        try:
            from django.conf import settings

            if not settings.configured:
                settings.configure(PASSWORD_HASHERS=[])
            from django.contrib.auth import hashers

            _dj = hashers
        except Exception:  # noqa: BLE001
            _dj = False
    return _dj


def django_hash(name, secret: bytes, s):
    H = _django()
    if not H:
        return None
    try:
        text = secret.decode("utf-8")
    except UnicodeDecodeError:
        return None
    try:
        if name == "django_pbkdf2_sha256":
            return H.PBKDF2PasswordHasher().encode(text, s["salt"], s["rounds"])
        if name == "django_pbkdf2_sha1":
            return H.PBKDF2SHA1PasswordHasher().encode(text, s["salt"], s["rounds"])
        if name == "django_salted_md5":
            if not s["salt"]:
                return None
            return H.MD5PasswordHasher().encode(text, s["salt"])
        if name in ("django_bcrypt", "django_bcrypt_sha256"):
            ident = s.get("ident", "$2b$")
            if ident not in ("$2a$", "$2b$", "$2y$") or "\0" in text:
                return None
            if name == "django_bcrypt" and len(secret) > 72:
                return None
            cfg = f"{ident}{s['rounds']:02d}${s['salt']}".encode()
            cls = H.BCryptPasswordHasher if name == "django_bcrypt" else H.BCryptSHA256PasswordHasher
            out = cls().encode(text, cfg)
            return out if out.split("$", 1)[1].startswith(cfg.decode()) else None
    except Exception:  # noqa: BLE001
        return None
    return None


def django_verify(name, secret: bytes, encoded: str):
    """-> True/False/None(not applicable)"""
    H = _django()
    if not H:
        return None
    cls = {
        "django_pbkdf2_sha256": "PBKDF2PasswordHasher",
        "django_pbkdf2_sha1": "PBKDF2SHA1PasswordHasher",
        "django_salted_md5": "MD5PasswordHasher",
        "django_bcrypt": "BCryptPasswordHasher",
        "django_bcrypt_sha256": "BCryptSHA256PasswordHasher",
    }.get(name)
    if cls is None:
        return None
    try:
        text = secret.decode("utf-8")
        if name == "django_bcrypt" and len(secret) > 72:
            return None
        return bool(getattr(H, cls)().verify(text, encoded))
    except Exception:  # noqa: BLE001
        return None


def third_party(name, secret: bytes, s, ctx=None):
    """the third party's hash string for this case, or None"""
    if name.startswith("django_"):
        return django_hash(name, secret, s)
    return os_crypt(name, secret, s)
