"""Textbook DES (FIPS 46-3 tables, bit-by-bit permutations) and the DES based password formats.

Deliberately structured differently from passlib.crypto.des (which uses merged SPE lookup
tables): every permutation here is a literal walk over the FIPS table."""

from __future__ import annotations

IP = [58, 50, 42, 34, 26, 18, 10, 2, 60, 52, 44, 36, 28, 20, 12, 4, 62, 54, 46, 38, 30, 22, 14, 6, 64, 56, 48, 40, 32, 24, 16, 8,
      57, 49, 41, 33, 25, 17, 9, 1, 59, 51, 43, 35, 27, 19, 11, 3, 61, 53, 45, 37, 29, 21, 13, 5, 63, 55, 47, 39, 31, 23, 15, 7]
FP = [40, 8, 48, 16, 56, 24, 64, 32, 39, 7, 47, 15, 55, 23, 63, 31, 38, 6, 46, 14, 54, 22, 62, 30, 37, 5, 45, 13, 53, 21, 61, 29,
      36, 4, 44, 12, 52, 20, 60, 28, 35, 3, 43, 11, 51, 19, 59, 27, 34, 2, 42, 10, 50, 18, 58, 26, 33, 1, 41, 9, 49, 17, 57, 25]
E = [32, 1, 2, 3, 4, 5, 4, 5, 6, 7, 8, 9, 8, 9, 10, 11, 12, 13, 12, 13, 14, 15, 16, 17,
     16, 17, 18, 19, 20, 21, 20, 21, 22, 23, 24, 25, 24, 25, 26, 27, 28, 29, 28, 29, 30, 31, 32, 1]
P = [16, 7, 20, 21, 29, 12, 28, 17, 1, 15, 23, 26, 5, 18, 31, 10, 2, 8, 24, 14, 32, 27, 3, 9, 19, 13, 30, 6, 22, 11, 4, 25]
PC1 = [57, 49, 41, 33, 25, 17, 9, 1, 58, 50, 42, 34, 26, 18, 10, 2, 59, 51, 43, 35, 27, 19, 11, 3, 60, 52, 44, 36,
       63, 55, 47, 39, 31, 23, 15, 7, 62, 54, 46, 38, 30, 22, 14, 6, 61, 53, 45, 37, 29, 21, 13, 5, 28, 20, 12, 4]
PC2 = [14, 17, 11, 24, 1, 5, 3, 28, 15, 6, 21, 10, 23, 19, 12, 4, 26, 8, 16, 7, 27, 20, 13, 2,
       41, 52, 31, 37, 47, 55, 30, 40, 51, 45, 33, 48, 44, 49, 39, 56, 34, 53, 46, 42, 50, 36, 29, 32]
SHIFTS = [1, 1, 2, 2, 2, 2, 2, 2, 1, 2, 2, 2, 2, 2, 2, 1]
SBOX = [
    [14, 4, 13, 1, 2, 15, 11, 8, 3, 10, 6, 12, 5, 9, 0, 7, 0, 15, 7, 4, 14, 2, 13, 1, 10, 6, 12, 11, 9, 5, 3, 8,
     4, 1, 14, 8, 13, 6, 2, 11, 15, 12, 9, 7, 3, 10, 5, 0, 15, 12, 8, 2, 4, 9, 1, 7, 5, 11, 3, 14, 10, 0, 6, 13],
    [15, 1, 8, 14, 6, 11, 3, 4, 9, 7, 2, 13, 12, 0, 5, 10, 3, 13, 4, 7, 15, 2, 8, 14, 12, 0, 1, 10, 6, 9, 11, 5,
     0, 14, 7, 11, 10, 4, 13, 1, 5, 8, 12, 6, 9, 3, 2, 15, 13, 8, 10, 1, 3, 15, 4, 2, 11, 6, 7, 12, 0, 5, 14, 9],
    [10, 0, 9, 14, 6, 3, 15, 5, 1, 13, 12, 7, 11, 4, 2, 8, 13, 7, 0, 9, 3, 4, 6, 10, 2, 8, 5, 14, 12, 11, 15, 1,
     13, 6, 4, 9, 8, 15, 3, 0, 11, 1, 2, 12, 5, 10, 14, 7, 1, 10, 13, 0, 6, 9, 8, 7, 4, 15, 14, 3, 11, 5, 2, 12],
    [7, 13, 14, 3, 0, 6, 9, 10, 1, 2, 8, 5, 11, 12, 4, 15, 13, 8, 11, 5, 6, 15, 0, 3, 4, 7, 2, 12, 1, 10, 14, 9,
     10, 6, 9, 0, 12, 11, 7, 13, 15, 1, 3, 14, 5, 2, 8, 4, 3, 15, 0, 6, 10, 1, 13, 8, 9, 4, 5, 11, 12, 7, 2, 14],
    [2, 12, 4, 1, 7, 10, 11, 6, 8, 5, 3, 15, 13, 0, 14, 9, 14, 11, 2, 12, 4, 7, 13, 1, 5, 0, 15, 10, 3, 9, 8, 6,
     4, 2, 1, 11, 10, 13, 7, 8, 15, 9, 12, 5, 6, 3, 0, 14, 11, 8, 12, 7, 1, 14, 2, 13, 6, 15, 0, 9, 10, 4, 5, 3],
    [12, 1, 10, 15, 9, 2, 6, 8, 0, 13, 3, 4, 14, 7, 5, 11, 10, 15, 4, 2, 7, 12, 9, 5, 6, 1, 13, 14, 0, 11, 3, 8,
     9, 14, 15, 5, 2, 8, 12, 3, 7, 0, 4, 10, 1, 13, 11, 6, 4, 3, 2, 12, 9, 5, 15, 10, 11, 14, 1, 7, 6, 0, 8, 13],
    [4, 11, 2, 14, 15, 0, 8, 13, 3, 12, 9, 7, 5, 10, 6, 1, 13, 0, 11, 7, 4, 9, 1, 10, 14, 3, 5, 12, 2, 15, 8, 6,
     1, 4, 11, 13, 12, 3, 7, 14, 10, 15, 6, 8, 0, 5, 9, 2, 6, 11, 13, 8, 1, 4, 10, 7, 9, 5, 0, 15, 14, 2, 3, 12],
    [13, 2, 8, 4, 6, 15, 11, 1, 10, 9, 3, 14, 5, 0, 12, 7, 1, 15, 13, 8, 10, 3, 7, 4, 12, 5, 6, 11, 0, 14, 9, 2,
     7, 11, 4, 1, 9, 12, 14, 2, 0, 6, 10, 13, 15, 3, 5, 8, 2, 1, 14, 7, 4, 10, 8, 13, 15, 12, 9, 0, 3, 5, 6, 11],
]

H64 = "./0123456789ABCDEFGHIJKLMNOPQRSTUVWXYZabcdefghijklmnopqrstuvwxyz"


def _permute(value: int, table, nbits_in: int) -> int:
    """table entries are 1-based positions counted from the most significant bit"""
    out = 0
    for pos in table:
        out = (out << 1) | ((value >> (nbits_in - pos)) & 1)
    return out


def key_schedule(key64: int):
    cd = _permute(key64, PC1, 64)
    c, d = cd >> 28, cd & 0xFFFFFFF
    subkeys = []
    for s in SHIFTS:
        c = ((c << s) | (c >> (28 - s))) & 0xFFFFFFF
        d = ((d << s) | (d >> (28 - s))) & 0xFFFFFFF
        subkeys.append(_permute((c << 28) | d, PC2, 56))
    return subkeys


def _feistel(r: int, k: int, salt: int) -> int:
    e = _permute(r, E, 32)
    # crypt(3) salt: bit j of the salt swaps output positions j and j+24 of the E expansion
    # (positions counted from the left, 0-based)
    if salt:
        for j in range(24):
            if (salt >> j) & 1:
                a = (e >> (47 - j)) & 1
                b = (e >> (47 - (j + 24))) & 1
                if a != b:
                    e ^= (1 << (47 - j)) | (1 << (47 - (j + 24)))
    x = e ^ k
    out = 0
    for i in range(8):
        six = (x >> (42 - 6 * i)) & 0x3F
        row = ((six >> 5) << 1) | (six & 1)
        col = (six >> 1) & 0xF
        out = (out << 4) | SBOX[i][row * 16 + col]
    return _permute(out, P, 32)


def des_encrypt_int(key64: int, block64: int, salt: int = 0, rounds: int = 1) -> int:
    """`rounds` complete DES encryptions applied in sequence (crypt(3) iteration count)"""
    ks = key_schedule(key64)
    for _ in range(rounds):
        v = _permute(block64, IP, 64)
        l, r = v >> 32, v & 0xFFFFFFFF
        for k in ks:
            l, r = r, l ^ _feistel(r, k, salt)
        block64 = _permute((r << 32) | l, FP, 64)
    return block64


def des_encrypt_bytes(key: bytes, block: bytes, salt=0, rounds=1) -> bytes:
    if len(key) == 7:
        key = expand_key(key)
    return des_encrypt_int(int.from_bytes(key, "big"), int.from_bytes(block, "big"), salt, rounds).to_bytes(8, "big")


def expand_key(key7: bytes) -> bytes:
    """56 key bits -> 8 bytes, 7 bits per byte in the high bits, parity bit 0"""
    v = int.from_bytes(key7, "big")
    return bytes((((v >> (49 - 7 * i)) & 0x7F) << 1) for i in range(8))


def shrink_key(key8: bytes) -> bytes:
    v = 0
    for b in key8:
        v = (v << 7) | (b >> 1)
    return v.to_bytes(7, "big")


# ---- unix crypt family --------------------------------------------------------------------
def _h64val(ch: str) -> int:
    return H64.index(ch)


def _salt_value(text: str) -> int:
    """little endian: first char = lowest 6 bits"""
    v = 0
    for i, ch in enumerate(text):
        v |= _h64val(ch) << (6 * i)
    return v


def _encode_block(v: int) -> str:
    """64-bit -> 11 chars, most significant bits first, two zero padding bits at the end"""
    v <<= 2
    return "".join(H64[(v >> (60 - 6 * i)) & 63] for i in range(11))


def _pw_key(chunk: bytes) -> int:
    chunk = (chunk + b"\0" * 8)[:8]
    return int.from_bytes(bytes((b << 1) & 0xFF for b in chunk), "big")


def des_crypt(secret: bytes, salt: str) -> str:
    return salt + _encode_block(des_encrypt_int(_pw_key(secret[:8]), 0, _salt_value(salt), 25))


def bsdi_crypt(secret: bytes, salt: str, rounds: int) -> str:
    key = _pw_key(secret[:8])
    i = 8
    while i < len(secret):
        nxt = _pw_key(secret[i : i + 8])
        key = des_encrypt_int(key, key) ^ nxt
        i += 8
    chk = des_encrypt_int(key, 0, _salt_value(salt), rounds)
    rtext = "".join(H64[(rounds >> (6 * k)) & 63] for k in range(4))
    return "_" + rtext + salt + _encode_block(chk)


def bigcrypt(secret: bytes, salt: str) -> str:
    out = salt
    seg_salt = salt
    chunks = [secret[i : i + 8] for i in range(0, len(secret), 8)] or [b""]
    for ch in chunks:
        chk = _encode_block(des_encrypt_int(_pw_key(ch), 0, _salt_value(seg_salt), 25))
        out += chk
        seg_salt = chk[:2]
    return out


def crypt16(secret: bytes, salt: str) -> str:
    sv = _salt_value(salt)
    a = _encode_block(des_encrypt_int(_pw_key(secret[:8]), 0, sv, 20))
    b = _encode_block(des_encrypt_int(_pw_key(secret[8:16]), 0, sv, 5))
    return salt + a + b


def lmhash(secret_bytes: bytes) -> str:
    """secret_bytes: already upper-cased and encoded in the OEM code page"""
    s = (secret_bytes + b"\0" * 14)[:14]
    magic = b"KGS!@#$%"
    return (des_encrypt_bytes(s[:7], magic) + des_encrypt_bytes(s[7:], magic)).hex()


def des_cbc_last(key: bytes, data: bytes) -> bytes:
    iv = 0
    k = int.from_bytes(key, "big")
    for i in range(0, len(data), 8):
        iv = des_encrypt_int(k, iv ^ int.from_bytes(data[i : i + 8], "big"))
    return iv.to_bytes(8, "big")


def oracle10(secret: str, user: str) -> str:
    data = (user + secret).upper().encode("utf-16-be")
    data += b"\0" * (-len(data) % 8)
    k2 = des_cbc_last(bytes.fromhex("0123456789ABCDEF"), data)
    return des_cbc_last(k2, data).hex().upper()


def selftest():
    # FIPS 81 / classic vectors
    assert des_encrypt_int(0x133457799BBCDFF1, 0x0123456789ABCDEF) == 0x85E813540F0AB405
    assert des_encrypt_int(0x0101010101010101, 0x8000000000000000) == 0x95F8A5E5DD31D900  # NBS variable plaintext 1
    assert des_encrypt_int(0x8001010101010101, 0) == 0x95A8D72813DAA94D  # NBS variable key 1
    assert des_encrypt_int(0x7CA110454A1A6E57, 0x01A1D6D039776742) == 0x690F5B0D9A26939B  # NBS s-box test 1
    assert des_crypt(b"password", "ab")[2:] == "JnggxhB/yWI"
    try:
        import legacycrypt
    except ImportError:
        legacycrypt = None
    if legacycrypt:
        for pw, salt in (("password", "ab"), ("", "zz"), ("éab", "./"), ("longer than eight", "K9")):
            got = legacycrypt.crypt(pw, salt)
            if got and not got.startswith("*"):
                assert des_crypt(pw.encode(), salt) == got, (pw, salt, got, des_crypt(pw.encode(), salt))
        for pw, salt, r in (("password", "abcd", 5), ("a much longer password than 8", "zz./", 17), ("", "....", 1)):
            cfg = "_" + "".join(H64[(r >> (6 * k)) & 63] for k in range(4)) + salt
            got = legacycrypt.crypt(pw, cfg)
            if got and not got.startswith("*"):
                assert bsdi_crypt(pw.encode(), salt, r) == got, (pw, salt, r, got)
    # documented examples (docs/lib/passlib.hash.*.rst)
    assert lmhash(b"PASSWORD") == "e52cac67419a9a224a3b108f3fa6cb6d"
    assert oracle10("tiger", "scott") == "F894844C34402B67"
    assert bigcrypt(b"passphrase", "S/")[:13] == des_crypt(b"passphra", "S/")
    assert expand_key(shrink_key(bytes([2 * i for i in range(8)]))) == bytes([2 * i for i in range(8)])
