"""MD4 straight from RFC 1320 (section 3), one-shot."""
import struct


def _rol(x, n):
    x &= 0xFFFFFFFF
    return ((x << n) | (x >> (32 - n))) & 0xFFFFFFFF


def md4(msg: bytes) -> bytes:
    a, b, c, d = 0x67452301, 0xEFCDAB89, 0x98BADCFE, 0x10325476
    ml = len(msg)
    msg = msg + b"\x80" + b"\0" * ((55 - ml) % 64) + struct.pack("<Q", (ml * 8) & 0xFFFFFFFFFFFFFFFF)
    assert len(msg) % 64 == 0
    for off in range(0, len(msg), 64):
        x = struct.unpack("<16I", msg[off : off + 64])
        aa, bb, cc, dd = a, b, c, d
        # round 1: F(x,y,z) = xy v not(x) z ; a = (a + F(b,c,d) + X[k]) <<< s
        for k in range(16):
            s = (3, 7, 11, 19)[k % 4]
            f = (b & c) | (~b & d)
            a, b, c, d = d, _rol(a + f + x[k], s), b, c
        # round 2: G = xy v xz v yz ; + 5A827999 ; k order 0 4 8 12 1 5 ...
        for i in range(16):
            k = (i % 4) * 4 + i // 4
            s = (3, 5, 9, 13)[i % 4]
            g = (b & c) | (b & d) | (c & d)
            a, b, c, d = d, _rol(a + g + x[k] + 0x5A827999, s), b, c
        # round 3: H = x xor y xor z ; + 6ED9EBA1 ; k order 0 8 4 12 2 10 6 14 1 9 5 13 3 11 7 15
        for i, k in enumerate((0, 8, 4, 12, 2, 10, 6, 14, 1, 9, 5, 13, 3, 11, 7, 15)):
            s = (3, 9, 11, 15)[i % 4]
            h = b ^ c ^ d
            a, b, c, d = d, _rol(a + h + x[k] + 0x6ED9EBA1, s), b, c
        a, b, c, d = (a + aa) & 0xFFFFFFFF, (b + bb) & 0xFFFFFFFF, (c + cc) & 0xFFFFFFFF, (d + dd) & 0xFFFFFFFF
    return struct.pack("<4I", a, b, c, d)


def selftest():
    vec = {
        b"": "31d6cfe0d16ae931b73c59d7e0c089c0",
        b"a": "bde52cb31de33e46245e05fbdbd6fb24",
        b"abc": "a448017aaf21d8525fc10ae87aa6729d",
        b"message digest": "d9130a8164549fe818874806e1c7014b",
        b"abcdefghijklmnopqrstuvwxyz": "d79e1c308aa5bbcdeea8ed63df412da9",
        b"ABCDEFGHIJKLMNOPQRSTUVWXYZabcdefghijklmnopqrstuvwxyz0123456789": "043f8582f241db351ce627e153e7f0e4",
        b"1234567890" * 8: "e33b4ddc9c38f2199c3e7b164fcc0536",
    }
    for m, h in vec.items():
        assert md4(m).hex() == h, m
