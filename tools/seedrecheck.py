#!/venv/bin/python
"""Re-validates every kept seeded change against the CURRENT checks: patch applied to a scratch copy of /repo, demo on /repo (must exit 0) and on the
copy (must exit non-zero), quick check(s) with VPCHK_REPO=<copy>; updates meta.json (caught_by_quick_check, buckets, rechecked_at_verif_commit).
The pinned suite is not re-run (it does not depend on /verif).  usage: tools/seedrecheck.py [--par 2] [--jobs 8] [--only REGEX]"""
import argparse, glob, json, os, re, shutil, subprocess, tempfile
from concurrent.futures import ThreadPoolExecutor

ap = argparse.ArgumentParser()
ap.add_argument("--par", type=int, default=2); ap.add_argument("--jobs", type=int, default=8); ap.add_argument("--only")
a = ap.parse_args()
ROOT = "/verif"
rev = subprocess.run(["git", "-C", ROOT, "rev-parse", "--short", "HEAD"], capture_output=True, text=True).stdout.strip()
repo_rev = subprocess.run(["git", "-C", "/repo", "rev-parse", "--short", "HEAD"], capture_output=True, text=True).stdout.strip()
dirs = sorted(d for d in glob.glob(ROOT + "/seeded/*/") if os.path.exists(d + "meta.json") and (not a.only or re.search(a.only, d)))


def one(d):
    meta = json.load(open(d + "meta.json"))
    tmp = tempfile.mkdtemp(prefix="vpseed.")
    dst = tmp + "/repo"
    try:
        shutil.copytree("/repo", dst, ignore=shutil.ignore_patterns(".git", "__pycache__", "docs", ".venv"))
        r = subprocess.run(["patch", "-p1", "-s", "-d", dst, "-i", d + "patch.diff"], capture_output=True, text=True)
        if r.returncode:
            meta["recheck"] = {"result": "patch-does-not-apply", "verif": rev, "repo": repo_rev}
            json.dump(meta, open(d + "meta.json", "w"), indent=1)
            return meta["seed_id"], "PATCH-FAILED"
        e0 = subprocess.run(["/venv/bin/python", d + "demo.py"], env=dict(os.environ, SEED_REPO="/repo"), capture_output=True).returncode
        e1 = subprocess.run(["/venv/bin/python", d + "demo.py"], env=dict(os.environ, SEED_REPO=dst), capture_output=True).returncode
        caught, buckets = {}, set()
        for pid in meta["checked_with"]:
            r = subprocess.run([ROOT + "/check", pid, "--tier", "quick", "--no-evidence", "--jobs", str(a.jobs)], env=dict(os.environ, VPCHK_REPO=dst, VERIF_SEED="1"), capture_output=True, text=True, cwd=ROOT)
            caught[pid] = r.returncode == 1
            buckets |= set(re.findall(r"bucket: (\S+)", r.stdout))
        meta["caught_by_quick_check"] = caught
        meta["buckets"] = sorted(buckets)[:8]
        meta["demo_unchanged_exit"], meta["demo_patched_exit"] = e0, e1
        meta["recheck"] = {"result": "ok", "verif": rev, "repo": repo_rev}
        json.dump(meta, open(d + "meta.json", "w"), indent=1)
        return meta["seed_id"], f"demo {e0}/{e1} {caught}"
    finally:
        shutil.rmtree(tmp, ignore_errors=True)


with ThreadPoolExecutor(a.par) as ex:
    for sid, res in ex.map(one, dirs):
        print(sid, res, flush=True)
