#!/bin/bash
# Runs the pinned test suite of the repo (guard off) and compares with BASELINE.json stable_pass.
# usage: tools/baseline.sh [repo_dir]   -> exit 0 when every stable-pass test still passes
REPO=${1:-/repo}
OUT=$(mktemp -d /tmp/vpbase.XXXXXX)
cd "$REPO" && env -u PASSLIB_VERIF /venv/bin/python -m pytest -ra -q -p no:cacheprovider --timeout=900 --continue-on-collection-errors --junitxml=$OUT/j.xml >$OUT/log 2>&1
/venv/bin/python - "$OUT/j.xml" <<'PY'
import json,sys,xml.etree.ElementTree as ET
base=json.load(open('/root/.vp/BASELINE.json'))
want=set(base['stable_pass'])
got=set()
for tc in ET.parse(sys.argv[1]).getroot().iter('testcase'):
    ok=not any(c.tag in('failure','error','skipped') for c in tc)
    if ok: got.add(tc.get('classname')+'::'+tc.get('name'))
missing=sorted(want-got)
print('stable_pass',len(want),'passing now',len(got),'missing',len(missing))
for m in missing[:40]: print('  MISSING',m)
sys.exit(1 if missing else 0)
PY
rc=$?
tail -3 $OUT/log
rm -rf $OUT
exit $rc
