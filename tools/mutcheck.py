#!/venv/bin/python
"""Sensitivity helper: apply one textual mutation to a scratch copy of the repo and run checks on it.

usage: tools/mutcheck.py <ID[,ID..]> <relative file> <old> <new> [--count N] [--tier quick] [--only REGEX]
       tools/mutcheck.py <ID[,ID..]> --patch file.diff
The scratch copy lives under /tmp and is removed afterwards.  Evidence files are not written.
"""
import argparse, os, shutil, subprocess, sys, tempfile

ap = argparse.ArgumentParser()
ap.add_argument("ids")
ap.add_argument("file", nargs="?")
ap.add_argument("old", nargs="?")
ap.add_argument("new", nargs="?")
ap.add_argument("--patch")
ap.add_argument("--count", type=int, default=1)
ap.add_argument("--tier", default="quick")
ap.add_argument("--only")
ap.add_argument("--seed", default="1")
a = ap.parse_args()
tmp = tempfile.mkdtemp(prefix="vpmut.")
dst = os.path.join(tmp, "repo")
try:
    shutil.copytree("/repo", dst, ignore=shutil.ignore_patterns(".git", "__pycache__", "docs", ".venv"))
    if a.patch:
        subprocess.run(["patch", "-p1", "-s", "-d", dst, "-i", os.path.abspath(a.patch)], check=True)
    else:
        p = os.path.join(dst, a.file)
        s = open(p).read()
        if s.count(a.old) != a.count:
            sys.exit(f"mutation site found {s.count(a.old)} times, expected {a.count}")
        open(p, "w").write(s.replace(a.old, a.new))
    env = dict(os.environ, VPCHK_REPO=dst, VERIF_SEED=a.seed)
    rc_all = 0
    for pid in a.ids.split(","):
        cmd = [os.path.join(os.path.dirname(os.path.dirname(os.path.abspath(__file__))), "check"), pid, "--tier", a.tier, "--no-evidence"]
        if a.only:
            cmd += ["--only", a.only]
        r = subprocess.run(cmd, env=env, capture_output=True, text=True)
        out = [l for l in r.stdout.splitlines() if l.strip()]
        print(f"== {pid}: exit {r.returncode}")
        for l in out[:14]:
            print("   " + l[:300])
        if r.returncode == 2:
            print(r.stdout[-3000:], r.stderr[-2000:])
finally:
    shutil.rmtree(tmp, ignore_errors=True)
