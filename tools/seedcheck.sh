#!/bin/bash
# tools/seedcheck.sh <PROP[,PROP..]> <outdir> <n> [--baseline]
# Confirms a seeded change: demo passes on /repo, fails on the patched copy; runs our quick check(s) on the patched copy;
# optionally re-runs the pinned suite on the patched copy. Scratch copy is removed afterwards.
PROPS=$1; OUT=$2; N=$3; BASE=$4
TMP=$(mktemp -d /tmp/vpseed.XXXXXX)
rsync -a --exclude .git --exclude __pycache__ --exclude docs /repo/ $TMP/repo/
if ! patch -p1 -s -d $TMP/repo -i $OUT/patch$N.diff; then echo "PATCH-FAILED"; rm -rf $TMP; exit 3; fi
SEED_REPO=/repo /venv/bin/python $OUT/demo$N.py >/dev/null 2>&1; echo "demo on unchanged: exit $?"
SEED_REPO=$TMP/repo /venv/bin/python $OUT/demo$N.py > $TMP/demo.out 2>&1; echo "demo on patched:   exit $?"; tail -3 $TMP/demo.out
for P in ${PROPS//,/ }; do
  VPCHK_REPO=$TMP/repo ./check $P --tier quick --no-evidence > $TMP/chk.out 2>&1; rc=$?
  echo "== check $P on patched: exit $rc"; grep -a "VIOLATION\|bucket\|HARNESS" $TMP/chk.out | head -8
done
if [ "$BASE" == "--baseline" ]; then tools/baseline.sh $TMP/repo 2>&1 | grep -v conda | tail -4; fi
rm -rf $TMP
