#!/bin/bash
# tools/seedsuite.sh <seed-id>: (re)runs the pinned suite on a scratch copy of /repo with seeded/<seed-id>/patch.diff applied and
# records the result in meta.json (suite_on_patched).  Used when the suite result of seedkeep.sh was disturbed by machine load.
ID=$1; D=/verif/seeded/$ID
TMP=$(mktemp -d /tmp/vpseed.XXXXXX)
rsync -a --exclude .git --exclude __pycache__ --exclude docs /repo/ $TMP/repo/
patch -p1 -s -d $TMP/repo -i $D/patch.diff || { echo PATCH-FAILED; rm -rf $TMP; exit 3; }
cd /verif && tools/baseline.sh $TMP/repo 2>&1 | grep -v conda > $TMP/base.out
grep -a "stable_pass\|MISSING" $TMP/base.out | head -12 > $TMP/sum
{ echo "-- suite re-run (tools/seedsuite.sh)"; cat $TMP/sum; tail -1 $TMP/base.out; } >> $D/confirm.txt
/venv/bin/python - "$ID" "$TMP/sum" <<'PY'
import json,sys
sid,f=sys.argv[1:3]
m=json.load(open(f'/verif/seeded/{sid}/meta.json'))
t=open(f).read().strip().splitlines()
m["suite_on_patched"]=" | ".join(x.strip() for x in t) if t else "not run"
json.dump(m,open(f'/verif/seeded/{sid}/meta.json','w'),indent=1)
print(sid,m["suite_on_patched"])
PY
rm -rf $TMP
