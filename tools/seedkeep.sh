#!/bin/bash
# tools/seedkeep.sh <seed-id> <PROP[,PROP..]> <outdir> <n> "<needs>"   -> /verif/seeded/<seed-id>/{patch.diff,demo.py,meta.json,confirm.txt}
ID=$1; PROPS=$2; OUT=$3; N=$4; NEEDS=$5
D=/verif/seeded/$ID; mkdir -p $D
cp $OUT/patch$N.diff $D/patch.diff; cp $OUT/demo$N.py $D/demo.py
cd /verif && tools/seedcheck.sh $PROPS $OUT $N --baseline 2>&1 | grep -v conda > $D/confirm.txt
/venv/bin/python - "$ID" "$PROPS" "$NEEDS" <<'PY' 2>/dev/null
import json,sys,re
sid,props,needs=sys.argv[1:4]
t=open(f'/verif/seeded/{sid}/confirm.txt').read()
caught={}
for m in re.finditer(r"== check (\S+) on patched: exit (\d+)", t): caught[m.group(1)]=(m.group(2)=="1")
meta={"seed_id":sid,"breaks_property":props.split(",")[0],"checked_with":props.split(","),"needs_to_manifest":needs,
 "demo_unchanged_exit":int(re.search(r"demo on unchanged: exit (\d+)",t).group(1)),"demo_patched_exit":int(re.search(r"demo on patched:\s+exit (\d+)",t).group(1)),
 "suite_on_patched": (re.search(r"stable_pass.*",t).group(0) if re.search(r"stable_pass.*",t) else "not run"),
 "caught_by_quick_check":caught,"buckets":sorted(set(re.findall(r"bucket: (\S+)",t)))[:8],
 "what_was_run":"tools/seedcheck.sh: patch applied to a scratch copy of /repo; demo.py with SEED_REPO=/repo and SEED_REPO=<copy>; ./check <ID> --tier quick with VPCHK_REPO=<copy>; tools/baseline.sh <copy> (pinned suite vs BASELINE.json stable_pass)"}
json.dump(meta,open(f'/verif/seeded/{sid}/meta.json','w'),indent=1)
print(sid, meta["caught_by_quick_check"], meta["suite_on_patched"])
PY
