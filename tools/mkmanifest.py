#!/venv/bin/python
"""Regenerate MANIFEST.json from the check modules that exist (LEVEL / LEVEL_TEXT / LEVEL_NOTE / TECHNIQUE)."""
import importlib, json, os, sys

VERIF = os.path.dirname(os.path.dirname(os.path.abspath(__file__)))
sys.path.insert(0, VERIF)
ids = [json.loads(l)["id"] for l in open(os.path.join(VERIF, "properties.jsonl"))]
base = json.load(open("/root/.vp/BASELINE.json"))
NOT_BUILT = {}
np_path = os.path.join(VERIF, "tools", "not_applicable.json")
if os.path.exists(np_path):
    NOT_BUILT = json.load(open(np_path))
checks, na = [], []
for pid in ids:
    path = os.path.join(VERIF, "vpchk", "checks", pid.lower() + ".py")
    if not os.path.exists(path) or pid in NOT_BUILT:
        na.append({"property_id": pid, "reason": NOT_BUILT.get(pid, "check not built yet in this round (planned in DESIGN.md section 3); nothing is claimed for it")})
        continue
    m = importlib.import_module(f"vpchk.checks.{pid.lower()}")
    checks.append({
        "property_id": pid,
        "quick_cmd": f"./check {pid} --tier quick",
        "thorough_cmd": f"./check {pid} --tier thorough",
        "evidence_file": f"evidence/{pid}.json",
        "replay_cmd_template": f"./check {pid} --replay {{path}}",
        "engine": "vpchk",
        "level_claimed": {"category": m.LEVEL, "text": m.LEVEL_TEXT, "design_ref": f"DESIGN.md section 3 ({pid})"},
        "level_note": m.LEVEL_NOTE,
        "technique": m.TECHNIQUE,
    })
man = {
    "version": 1,
    "setup_cmd": "/venv/bin/python -c 'import hypothesis' 2>/dev/null || /venv/bin/pip install --no-index --find-links /opt/veriftools/wheels hypothesis; ./check --selftest",
    "hooks": {
        "guard": "PASSLIB_VERIF",
        "enable": "none needed: checks import the working tree of /repo in-process (sys.path[0]=/repo) and obtain control (random source, thread schedule, clock, failing hashers) by passing objects or patching module attributes inside the check process; no guarded source hooks exist",
        "baseline_off_cmd": "cd /repo && env -u PASSLIB_VERIF " + base["cmd"].split("&& ", 1)[1].replace("--junitxml=<file>", "--junitxml=/tmp/passlib-baseline.junit.xml"),
        "source_commits": [],
        "add_only": True,
    },
    "engines": [{"name": "vpchk", "path": "vpchk/", "serves_properties": [c["property_id"] for c in checks],
                 "kind_free_text": "Hypothesis strategies and rule-based state machines, exhaustive enumeration of small finite domains, structure-aware mutation, scripted random sources, harness-owned thread schedules and injected faults; independent reference oracles; bucketed collect-then-shrink; 16 worker processes"}],
    "checks": checks,
    "not_applicable": na,
    "notes": "All checks: exit 0 held / exit 1 + VIOLATION line / exit 2 harness error. known_findings.json lists recorded and fixed findings (read-only at run time). tools/baseline.sh re-runs the pinned suite and compares with BASELINE.json. Seeded breakages and which check catches them: DESIGN.md section 8 and seeded/.",
}
json.dump(man, open(os.path.join(VERIF, "MANIFEST.json"), "w"), indent=1)
print("claimed", [c["property_id"] for c in checks], "not_applicable", [n["property_id"] for n in na])
