#!/venv/bin/python
"""Sensitivity batch: apply each mutation of a catalogue (JSON list of {id, property, file, old, new, count}) to its own scratch copy of
/repo under /tmp, run the quick tier of the named property's check against the copy (VPCHK_REPO), and write a result table.

usage: tools/mutrun.py catalogue.json out.json [--par 2] [--jobs 8] [--only REGEX] [--tier quick]
Nothing is written to /repo; scratch copies are removed; evidence files are not written."""
import argparse, json, os, re, shutil, subprocess, sys, tempfile, time
from concurrent.futures import ThreadPoolExecutor

ap = argparse.ArgumentParser()
ap.add_argument("catalogue"); ap.add_argument("out")
ap.add_argument("--par", type=int, default=2); ap.add_argument("--jobs", type=int, default=8)
ap.add_argument("--only"); ap.add_argument("--tier", default="quick"); ap.add_argument("--seed", default="1")
a = ap.parse_args()
ROOT = os.path.dirname(os.path.dirname(os.path.abspath(__file__)))
muts = json.load(open(a.catalogue))
if a.only:
    muts = [m for m in muts if re.search(a.only, m["id"])]


def one(m):
    tmp = tempfile.mkdtemp(prefix="vpmut.")
    dst = os.path.join(tmp, "repo")
    t0 = time.time()
    try:
        shutil.copytree("/repo", dst, ignore=shutil.ignore_patterns(".git", "__pycache__", "docs", ".venv"))
        p = os.path.join(dst, m["file"])
        s = open(p).read()
        if s.count(m["old"]) != m.get("count", 1):
            return dict(id=m["id"], property=m["property"], result="site-not-found", n=s.count(m["old"]))
        open(p, "w").write(s.replace(m["old"], m["new"]))
        env = dict(os.environ, VPCHK_REPO=dst, VERIF_SEED=a.seed)
        res = {}
        for pid in m["property"].split(","):
            r = subprocess.run([os.path.join(ROOT, "check"), pid, "--tier", a.tier, "--no-evidence", "--jobs", str(a.jobs)], env=env, capture_output=True, text=True, cwd=ROOT)
            res[pid] = dict(exit=r.returncode, buckets=sorted(set(re.findall(r"bucket: (\S+)", r.stdout)))[:6], tail=r.stdout[-600:] if r.returncode == 2 else "")
        caught = any(v["exit"] == 1 for v in res.values())
        return dict(id=m["id"], property=m["property"], result="caught" if caught else ("harness-error" if any(v["exit"] == 2 for v in res.values()) else "MISSED"),
                    checks=res, wall=round(time.time() - t0, 1), tests_still_pass=m.get("tests_still_pass"))
    finally:
        shutil.rmtree(tmp, ignore_errors=True)


out = []
with ThreadPoolExecutor(a.par) as ex:
    for r in ex.map(one, muts):
        out.append(r)
        print(r["id"], r["result"], r.get("wall"), [b for v in r.get("checks", {}).values() for b in v["buckets"]][:3], flush=True)
        json.dump(out, open(a.out, "w"), indent=1)
n = len(out); c = sum(r["result"] == "caught" for r in out)
print(f"caught {c}/{n}; missed: {[r['id'] for r in out if r['result'] != 'caught']}")
