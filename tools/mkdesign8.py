#!/venv/bin/python
"""Splices tools/design8.tmpl.md (section 8, 'as built') into DESIGN.md, filling the table of repaired defects from known_findings.json."""
import json, re
k = json.load(open("/verif/known_findings.json"))["findings"]
seen = {}
for e in k:
    if e["status"] == "fixed":
        w = e["what"]
        c = e["commit"][:7]
        w = w.split(c, 1)[-1].strip() if c in w else w
        seen.setdefault(c, []).append((e["property"], w))
rows = "\n".join(f"| `{c}` | {','.join(sorted(set(p for p, _ in v)))} | {v[0][1].replace('|', '/')} |" for c, v in seen.items())
sec = open("/verif/tools/design8.tmpl.md").read().replace("FIXROWS", rows)
d = open("/verif/DESIGN.md").read()
start = d.find("\n---------------------------------------------------------------------------------------\n\n## 8. As built")
app = d.find("\n---------------------------------------------------------------------------------------\n\n## Appendix A")
assert app > 0
if start < 0:
    start = app
d = d[:start] + sec.rstrip("\n") + "\n" + d[app:]
open("/verif/DESIGN.md", "w").write(d)
print("section 8:", len(sec.splitlines()), "lines;", len(seen), "fix commits")
